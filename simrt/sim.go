// Package simrt is the simulated machine under scipipe: a cooperative
// scheduler that owns every goroutine interleaving, simulated channels /
// select / mutexes, a discrete-event clock, an in-memory file system and a
// mini shell. Exactly one simulated goroutine runs at any time; all choices
// come from the Tape.
package simrt

import (
	"container/heap"
	"fmt"
	"os"
	"runtime/debug"
	"sort"
	"strconv"
	"strings"
)

// S is the simulation currently running in this OS process (scipipe has
// package-level state, so one process runs one simulation at a time).
var S *Sim

type gstate int

const (
	gRunnable gstate = iota
	gBlocked
	gDone
)

type G struct {
	ID       int
	Site     string
	gate     chan struct{}
	state    gstate
	waitDesc string
	isMain   bool
	poisoned bool
	started  bool
	prio     int
	// wake-up payload for channel operations
	wv     any
	wok    bool
	widx   int
	wpanic string
	// vector clock (race build)
	vc VC
}

type EndReason int

const (
	EndNone EndReason = iota
	EndMainReturned
	EndExit
	EndPanic
	EndDeadlock
	EndKilled
	EndStepCap
	EndHarness // stub limitation / harness error: run is inconclusive
)

func (e EndReason) String() string {
	return [...]string{"none", "main-returned", "exit", "panic", "deadlock", "killed", "step-cap", "harness-error"}[e]
}

type poisonT struct{}

var poison = &poisonT{}

type Strategy int

const (
	StratSparse Strategy = iota
	StratUniform
	StratPCT
	NumStrategies
)

type Config struct {
	Strategy   Strategy
	StepCap    int
	KillAt     int   // step at which the whole process group is killed; <0: never
	// DiskFullAt > 0: the DiskFullAt-th write that Go code (not a shell command)
	// makes to a file below a task temp directory or to an audit file stores only half of the data
	// and fails with ENOSPC (a short write on a full disk)
	DiskFullAt int
	// NoFDFrom > 0: the process is out of file descriptors for a while: the
	// NoFDFrom-th .. (NoFDFrom+NoFDLen-1)-th descriptor-opening call of Go code
	// (open, create, read/write whole file, temp file, read directory) fails
	// with EMFILE; calls that need no descriptor (stat, rename, remove, mkdir)
	// are not affected
	NoFDFrom, NoFDLen int
	ClockTick  int64 // ns added per time.Now() reading
	ClockGran  int64 // readings truncated to a multiple of this (coarse clock); 0/1: exact
	Epoch      int64 // unix ns of simulated time zero
	TZOffset   int   // seconds east of UTC of the simulated local time zone
	TraceOn    bool
	Race       bool
	PipeCap    int
	// NoEarlyTimers: the clock advances only when nothing is runnable (an idle
	// machine: every goroutine that can run does so before time passes)
	NoEarlyTimers bool
	TimerPick  float64 // probability (record mode) of firing the next timer although goroutines are runnable
	Env        map[string]string
	PCTChanges int
}

type Sim struct {
	Tape *Tape
	Cfg  Config

	gs   []*G
	cur  *G
	back chan struct{}

	Steps      int
	ended      bool
	End        EndReason
	ExitCode   int
	PanicVal   string
	Stack      string
	Deadlock   []string // wait-for description when End==EndDeadlock
	HarnessErr string

	now    int64
	timers timerHeap
	tseq   uint64

	chans   map[uintptr]*chanState
	nextObj int

	FS    *FS
	Shell *Shell

	Hash     uint64
	TraceLog []string
	Events   int

	// OnStep is called by the scheduler after every step (no goroutine is
	// running); invariants go here. Returning a non-empty string ends the
	// run with EndHarness? No: it is recorded as an invariant violation.
	OnStep func()

	Stdout, Stderr []byte

	Probes map[string]int
	Faults map[string]int

	pctChangeAt map[int]bool
	pctLow      int

	race *raceState

	// InvViol: violations of machine-level invariants noticed by the
	// simulator itself (e.g. two running commands sharing a temp directory)
	InvViol []string

	// Aux holds per-simulation state of shim packages (global PRNG, ...).
	Aux map[string]any
}

func NewSim(t *Tape, cfg Config) *Sim {
	if cfg.StepCap == 0 {
		cfg.StepCap = 1500000
		if v, err := strconv.Atoi(os.Getenv("VERIF_STEPCAP")); err == nil && v > 0 {
			cfg.StepCap = v // (diagnosis of step-cap cases only)
		}
	}
	if cfg.ClockTick == 0 {
		cfg.ClockTick = 1000
	}
	if cfg.Epoch == 0 {
		cfg.Epoch = 1790000000 * 1e9
	}
	if cfg.PipeCap == 0 {
		cfg.PipeCap = 64
	}
	s := &Sim{
		Tape:   t,
		Cfg:    cfg,
		back:   make(chan struct{}),
		chans:  map[uintptr]*chanState{},
		Hash:   1469598103934665603,
		Probes: map[string]int{},
		Faults: map[string]int{},
		Aux:    map[string]any{},
	}
	s.FS = newFS(s)
	s.Shell = newShell(s)
	if cfg.Race {
		s.race = newRaceState()
	}
	if cfg.Strategy == StratPCT && !t.Replay {
		s.pctChangeAt = map[int]bool{}
		n := cfg.PCTChanges
		if n == 0 {
			n = 3
		}
		r := t.Aux(StSched)
		for i := 0; i < n; i++ {
			s.pctChangeAt[1+r.intn(600)] = true
		}
	}
	return s
}

func (s *Sim) Probe(name string) { s.Probes[name]++ }
func (s *Sim) Fault(name string) { s.Faults[name]++ }

// ---------------------------------------------------------------------------
// event log

func (s *Sim) ev(kind string, obj int, detail string) {
	s.Events++
	h := s.Hash
	mix := func(x uint64) {
		h ^= x
		h *= 1099511628211
	}
	gid := -1
	if s.cur != nil {
		gid = s.cur.ID
	}
	mix(uint64(gid + 1))
	for i := 0; i < len(kind); i++ {
		mix(uint64(kind[i]))
	}
	mix(uint64(obj + 7))
	for i := 0; i < len(detail); i++ {
		mix(uint64(detail[i]))
	}
	s.Hash = h
	if s.Cfg.TraceOn && len(s.TraceLog) < 20000 {
		s.TraceLog = append(s.TraceLog, fmt.Sprintf("%d g%d %s #%d %s", s.Steps, gid, kind, obj, detail))
	}
}

// Note lets the harness add its own events to the log (hashed and traced).
func (s *Sim) Note(kind, detail string) { s.ev(kind, 0, detail) }

// ---------------------------------------------------------------------------
// goroutines

func (s *Sim) spawn(site string, fn func()) *G {
	g := &G{ID: len(s.gs), Site: site, gate: make(chan struct{})}
	if s.Cfg.Strategy == StratPCT && !s.Tape.Replay {
		g.prio = 1000 + s.Tape.Aux(StSched).intn(100000)
	}
	s.gs = append(s.gs, g)
	go func() {
		<-g.gate
		defer func() {
			r := recover()
			g.state = gDone
			if r != nil && r != any(poison) {
				if !s.ended {
					s.PanicVal = fmt.Sprint(r)
					s.Stack = string(debug.Stack())
					s.endWith(EndPanic, 2)
				}
			} else if r == nil && g.isMain && !s.ended {
				s.endWith(EndMainReturned, 0)
			}
			s.back <- struct{}{}
		}()
		if g.poisoned {
			panic(poison)
		}
		g.started = true
		fn()
	}()
	return g
}

func (s *Sim) endWith(r EndReason, code int) {
	if s.ended {
		return
	}
	s.ended = true
	s.End = r
	s.ExitCode = code
	if s.cur != nil {
		s.cur.poisoned = true
	}
}

// HarnessFail ends the run as inconclusive (stub limitation, unsupported
// construct). Never a property violation.
func (s *Sim) HarnessFail(msg string) {
	if !s.ended {
		s.HarnessErr = msg
		s.endWith(EndHarness, 3)
	}
	panic(poison)
}

// Exit implements os.Exit inside the simulation.
func (s *Sim) Exit(code int) {
	s.check()
	s.ev("exit", code, "")
	s.endWith(EndExit, code)
	panic(poison)
}

func (s *Sim) check() {
	if s.cur == nil {
		panic("simrt: call from outside a simulated goroutine")
	}
	if s.cur.poisoned || s.ended {
		s.cur.poisoned = true
		panic(poison)
	}
}

// yield hands control back to the scheduler; the goroutine stays in whatever
// state (runnable / blocked) it has set.
func (s *Sim) yield() {
	g := s.cur
	s.back <- struct{}{}
	<-g.gate
	if g.poisoned {
		panic(poison)
	}
}

// Pre is the common prologue of every simulated operation: a scheduling point.
func (s *Sim) Pre(kind string, obj int, detail string) {
	s.check()
	s.ev(kind, obj, detail)
	s.yield()
}

func (s *Sim) park(desc string) {
	g := s.cur
	g.state = gBlocked
	g.waitDesc = desc
	s.yield()
}

func (s *Sim) ready(g *G) {
	if g.state == gBlocked {
		g.state = gRunnable
	}
}

// Yield is an explicit scheduling point for harness code.
func Yield() { S.Pre("yield", 0, "") }

// Go starts fn as a new simulated goroutine.
func Go(site string, fn func()) {
	s := S
	s.Pre("go", len(s.gs), site)
	g := s.spawn(site, fn)
	if s.race != nil {
		s.race.fork(s.cur, g)
	}
}

func (s *Sim) Cur() *G { return s.cur }

// ---------------------------------------------------------------------------
// scheduler

func (s *Sim) runnable() []*G {
	var r []*G
	if s.cur != nil && s.cur.state == gRunnable {
		r = append(r, s.cur)
	}
	for _, g := range s.gs {
		if g.state == gRunnable && g != s.cur {
			r = append(r, g)
		}
	}
	return r
}

func (s *Sim) pick(r []*G, timer bool) int {
	n := len(r)
	if timer {
		n++
	}
	switch s.Cfg.Strategy {
	case StratUniform:
		return s.Tape.ChooseFn(StSched, n, func(rg *rng) int {
			if timer && rg.float() < s.Cfg.TimerPick {
				return n - 1
			}
			return rg.intn(len(r))
		})
	case StratPCT:
		return s.Tape.ChooseFn(StSched, n, func(rg *rng) int {
			if s.pctChangeAt[s.Steps] && s.cur != nil {
				s.pctLow--
				s.cur.prio = s.pctLow
			}
			if timer && rg.float() < s.Cfg.TimerPick {
				return n - 1
			}
			best := 0
			for i, g := range r {
				if g.prio > r[best].prio {
					best = i
				}
			}
			return best
		})
	default:
		return s.Tape.ChooseFn(StSched, n, func(rg *rng) int {
			if timer && rg.float() < s.Cfg.TimerPick {
				return n - 1
			}
			if rg.float() < 0.85 {
				return 0
			}
			return rg.intn(len(r))
		})
	}
}

// Run executes main as the program's main goroutine until the incarnation
// ends, then unwinds every remaining goroutine.
func (s *Sim) Run(main func()) {
	S = s
	g := s.spawn("main", main)
	g.isMain = true
	for !s.ended {
		if s.Cfg.KillAt >= 0 && s.Steps >= s.Cfg.KillAt {
			s.cur = nil
			s.endWith(EndKilled, 137)
			break
		}
		if s.Steps >= s.Cfg.StepCap {
			s.cur = nil
			s.endWith(EndStepCap, 3)
			break
		}
		r := s.runnable()
		timer := s.timers.Len() > 0
		if len(r) == 0 {
			if !timer {
				s.describeDeadlock()
				s.cur = nil
				s.endWith(EndDeadlock, 2)
				break
			}
			s.fireNextTimer()
			continue
		}
		if s.Cfg.NoEarlyTimers {
			timer = false
		}
		idx := s.pick(r, timer)
		if idx >= len(r) {
			s.Probe("timer-fired-while-runnable")
			s.fireNextTimer()
			continue
		}
		if idx != 0 || s.cur != r[0] {
			s.Probe("context-switch")
		}
		s.cur = r[idx]
		s.Steps++
		s.cur.gate <- struct{}{}
		<-s.back
		if s.OnStep != nil && !s.ended {
			s.OnStep()
		}
	}
	// unwind everything that is still alive
	for _, g := range s.gs {
		if g.state != gDone {
			g.poisoned = true
			s.cur = g
			g.gate <- struct{}{}
			<-s.back
		}
	}
	s.cur = nil
}

func (s *Sim) describeDeadlock() {
	for _, g := range s.gs {
		if g.state == gBlocked {
			s.Deadlock = append(s.Deadlock, fmt.Sprintf("g%d(%s): %s", g.ID, g.Site, g.waitDesc))
		}
	}
	sort.Strings(s.Deadlock)
}

func (s *Sim) DeadlockString() string { return strings.Join(s.Deadlock, "; ") }

// ---------------------------------------------------------------------------
// clock and timers

type timer struct {
	at   int64
	seq  uint64
	g    *G
	fn   func() // scheduler-context callback (time.After & co)
	dead *bool
}
type timerHeap []timer

func (h timerHeap) Len() int { return len(h) }
func (h timerHeap) Less(i, j int) bool {
	if h[i].at != h[j].at {
		return h[i].at < h[j].at
	}
	return h[i].seq < h[j].seq
}
func (h timerHeap) Swap(i, j int) { h[i], h[j] = h[j], h[i] }
func (h *timerHeap) Push(x any)   { *h = append(*h, x.(timer)) }
func (h *timerHeap) Pop() any {
	o := *h
	x := o[len(o)-1]
	*h = o[:len(o)-1]
	return x
}

func (s *Sim) fireNextTimer() {
	t := heap.Pop(&s.timers).(timer)
	if t.at > s.now {
		s.now = t.at
	}
	if t.fn != nil {
		if t.dead == nil || !*t.dead {
			t.fn()
		}
		return
	}
	s.ready(t.g)
}

// SpawnFromTimer starts fn as a new goroutine from scheduler context.
func (s *Sim) SpawnFromTimer(site string, fn func()) { s.spawn(site, fn) }

// AfterNS registers fn to run in scheduler context after d simulated ns; the
// returned flag cancels it when set.
func (s *Sim) AfterNS(d int64, fn func()) *bool {
	dead := new(bool)
	s.tseq++
	heap.Push(&s.timers, timer{at: s.now + d, seq: s.tseq, fn: fn, dead: dead})
	return dead
}

// SleepNS blocks the calling goroutine for d simulated nanoseconds. d==0 is
// only a scheduling point.
func (s *Sim) SleepNS(d int64) {
	s.Pre("sleep", 0, "")
	if d <= 0 {
		return
	}
	s.tseq++
	heap.Push(&s.timers, timer{at: s.now + d, seq: s.tseq, g: s.cur})
	s.park("sleep")
}

// NowNS returns the simulated wall clock (unix ns) and advances it by one
// tick, so that two readings are never equal unless the clock is coarse.
func (s *Sim) NowNS() int64 {
	s.now += s.Cfg.ClockTick
	v := s.Cfg.Epoch + s.now
	if s.Cfg.ClockGran > 1 {
		v -= v % s.Cfg.ClockGran
	}
	return v
}

// SimTimeNS returns simulated time elapsed since the start of the incarnation.
func (s *Sim) SimTimeNS() int64 { return s.now }

func (s *Sim) newObj() int { s.nextObj++; return s.nextObj }

// ChooseFn on Tape: defined here to keep tape.go free of strategy code.
func (t *Tape) ChooseFn(st StreamID, n int, draw func(*rng) int) int {
	s := t.Streams[st]
	if n <= 1 {
		return 0
	}
	var v int
	if s.pos < len(s.In) {
		v = int(s.In[s.pos] % uint32(n))
		s.pos++
	} else if t.Replay {
		v = 0
	} else {
		v = draw(s.rng)
		if v < 0 || v >= n {
			v = 0
		}
	}
	s.Used = append(s.Used, uint32(v))
	if v != 0 {
		s.NonZero++
	}
	return v
}
