package simrt

import (
	"fmt"
	"io"
	iofs "io/fs"
	"os"
	"sort"
	"strings"
	"syscall"
	"time"
)

// In-memory POSIX-like file system. Every mutating call appends to the
// journal; a kill keeps exactly what the journal says was done. File contents
// are immutable slices (writes allocate), so a snapshot only copies the tree.

type Kind int

const (
	KFile Kind = iota
	KDir
	KFifo
	// KSymlink: a symbolic link whose target does not exist (the only kind the
	// workloads make: a command that leaves a dangling link where its output
	// should be). Calls that follow links (stat, open) see ENOENT; lstat, rename,
	// unlink and directory listings see the link itself.
	KSymlink
)

type Inode struct {
	Ino   int
	Kind  Kind
	Data  []byte
	Ents  map[string]*Inode
	Mtime int64
	Mode  uint32
	pipe  *pipe
}

type JEntry struct {
	Seq   int
	Step  int
	Op    string
	Path  string
	Path2 string
	Ino   int
}

type FS struct {
	s        *Sim
	Root     *Inode
	Cwd      string
	NextIno  int
	Journal  []JEntry
	OnMutate func(e JEntry)
	tmpSeq   int
	goOpens  int // descriptor-opening calls of Go code so far (NoFDFrom)
	goWrites int // Go-level data writes below task temp directories so far (DiskFullAt)
}

const NameMax = 255

func newFS(s *Sim) *FS {
	f := &FS{s: s, Cwd: "/work", NextIno: 2}
	f.Root = &Inode{Ino: 1, Kind: KDir, Ents: map[string]*Inode{}, Mode: 0777}
	f.mkdirAllNoJournal("/work")
	f.mkdirAllNoJournal("/tmp")
	return f
}

// Adopt replaces the tree by a clone of another file system's tree (used to
// start a new incarnation on the durable state a previous one left).
func (f *FS) Adopt(root *Inode, nextIno int) {
	f.Root = root
	f.NextIno = nextIno
}

func (n *Inode) Clone() *Inode {
	c := &Inode{Ino: n.Ino, Kind: n.Kind, Data: n.Data, Mtime: n.Mtime, Mode: n.Mode}
	if n.Ents != nil {
		c.Ents = make(map[string]*Inode, len(n.Ents))
		for k, v := range n.Ents {
			c.Ents[k] = v.Clone()
		}
	}
	return c
}

func (f *FS) Snapshot() *Inode { return f.Root.Clone() }

func perr(op, path string, e syscall.Errno) error {
	return &iofs.PathError{Op: op, Path: path, Err: e}
}

func (f *FS) journal(op, path, path2 string, ino int) {
	e := JEntry{Seq: len(f.Journal), Step: f.s.Steps, Op: op, Path: path, Path2: path2, Ino: ino}
	f.Journal = append(f.Journal, e)
	f.s.ev("fs-"+op, ino, path+" "+path2)
	if f.OnMutate != nil {
		f.OnMutate(e)
	}
}

// JournalNote records a metadata change made by a shim (chtimes, truncate).
func (f *FS) JournalNote(op, path string, ino int) {
	_, _, _, abs, _ := f.walk(f.Cwd, path)
	f.journal(op, abs, "", ino)
}

// walk resolves path (relative to cwd) component by component. It returns
// the parent directory, the final name, the node (nil if absent) and the
// absolute cleaned path.
func (f *FS) walk(cwd, path string) (parent *Inode, name string, node *Inode, abs string, err syscall.Errno) {
	if path == "" {
		return nil, "", nil, "", syscall.ENOENT
	}
	var comps []string
	if !strings.HasPrefix(path, "/") {
		comps = strings.Split(cwd, "/")
	}
	comps = append(comps, strings.Split(path, "/")...)
	stack := []*Inode{f.Root}
	names := []string{}
	var clean []string
	for _, c := range comps {
		if c != "" && c != "." {
			clean = append(clean, c)
		}
	}
	if len(clean) == 0 {
		return nil, "", f.Root, "/", 0
	}
	for i, c := range clean {
		cur := stack[len(stack)-1]
		last := i == len(clean)-1
		if cur == nil {
			return nil, "", nil, "", syscall.ENOENT
		}
		if cur.Kind != KDir {
			return nil, "", nil, "", syscall.ENOTDIR
		}
		if c == ".." {
			if len(stack) > 1 {
				stack = stack[:len(stack)-1]
				names = names[:len(names)-1]
			}
			if last {
				n := stack[len(stack)-1]
				if len(stack) == 1 {
					return nil, "", n, "/", 0
				}
				return stack[len(stack)-2], names[len(names)-1], n, "/" + strings.Join(names, "/"), 0
			}
			continue
		}
		if len(c) > NameMax {
			return nil, "", nil, "", syscall.ENAMETOOLONG
		}
		child := cur.Ents[c]
		if last {
			return cur, c, child, "/" + strings.Join(append(names, c), "/"), 0
		}
		if child == nil {
			return nil, "", nil, "", syscall.ENOENT
		}
		stack = append(stack, child)
		names = append(names, c)
	}
	return nil, "", nil, "", syscall.ENOENT
}

func (f *FS) mkdirAllNoJournal(path string) {
	cur := f.Root
	for _, c := range strings.Split(path, "/") {
		if c == "" {
			continue
		}
		n := cur.Ents[c]
		if n == nil {
			n = &Inode{Ino: f.NextIno, Kind: KDir, Ents: map[string]*Inode{}, Mode: 0777}
			f.NextIno++
			cur.Ents[c] = n
		}
		cur = n
	}
}

func (f *FS) newInode(k Kind) *Inode {
	n := &Inode{Ino: f.NextIno, Kind: k, Mtime: f.s.Cfg.Epoch + f.s.now, Mode: 0644}
	f.NextIno++
	if k == KDir {
		n.Ents = map[string]*Inode{}
		n.Mode = 0777
	}
	return n
}

// --- primitive operations (no scheduling; callers yield) ------------------------

func (f *FS) Lookup(cwd, path string) (*Inode, error) {
	_, _, n, _, e := f.walk(cwd, path)
	if e != 0 {
		return nil, perr("stat", path, e)
	}
	if n == nil || n.Kind == KSymlink {
		return nil, perr("stat", path, syscall.ENOENT)
	}
	return n, nil
}

// Symlink creates a dangling symbolic link at path.
func (f *FS) Symlink(cwd, path, target string) error {
	p, name, n, abs, e := f.walk(cwd, path)
	if e != 0 {
		return perr("symlink", path, e)
	}
	if n != nil {
		return perr("symlink", path, syscall.EEXIST)
	}
	if p == nil {
		return perr("symlink", path, syscall.ENOENT)
	}
	d := f.newInode(KSymlink)
	d.Data = []byte(target)
	p.Ents[name] = d
	f.journal("symlink", abs, target, d.Ino)
	return nil
}

// GoLstat: stat without following a link in the last component.
func (f *FS) GoLstat(path string) (iofs.FileInfo, error) {
	f.s.Pre("lstat", 0, path)
	_, _, n, _, e := f.walk(f.Cwd, path)
	if e != 0 {
		return nil, perr("lstat", path, e)
	}
	if n == nil {
		return nil, perr("lstat", path, syscall.ENOENT)
	}
	return infoOf(base(path), n), nil
}

func (f *FS) Mkdir(cwd, path string) error {
	p, name, n, abs, e := f.walk(cwd, path)
	if e != 0 {
		return perr("mkdir", path, e)
	}
	if n != nil {
		return perr("mkdir", path, syscall.EEXIST)
	}
	d := f.newInode(KDir)
	p.Ents[name] = d
	f.journal("mkdir", abs, "", d.Ino)
	return nil
}

func (f *FS) MkdirAll(cwd, path string) error {
	// like os.MkdirAll: fast path stat, then create parents one by one
	if n, err := f.Lookup(cwd, path); err == nil {
		if n.Kind == KDir {
			return nil
		}
		return perr("mkdir", path, syscall.ENOTDIR)
	}
	comps := strings.Split(path, "/")
	prefix := ""
	if strings.HasPrefix(path, "/") {
		prefix = "/"
	}
	acc := prefix
	for _, c := range comps {
		if c == "" {
			continue
		}
		if acc == "" || acc == "/" {
			acc += c
		} else {
			acc += "/" + c
		}
		if c == "." || c == ".." {
			continue
		}
		n, err := f.Lookup(cwd, acc)
		if err == nil {
			if n.Kind != KDir {
				return perr("mkdir", acc, syscall.ENOTDIR)
			}
			continue
		}
		if err := f.Mkdir(cwd, acc); err != nil {
			return err
		}
	}
	return nil
}

// Create truncates or creates a regular file.
func (f *FS) Create(cwd, path string) (*Inode, string, error) {
	p, name, n, abs, e := f.walk(cwd, path)
	if e != 0 {
		return nil, "", perr("open", path, e)
	}
	if n != nil {
		switch n.Kind {
		case KDir:
			return nil, "", perr("open", path, syscall.EISDIR)
		case KFifo:
			return n, abs, nil
		case KSymlink:
			// (open with O_CREAT through a dangling link creates the target: the
			// model keeps it simple and turns the link into the file)
			n.Kind = KFile
		}
		n.Data = nil
		n.Mtime = f.s.Cfg.Epoch + f.s.now
		f.journal("truncate", abs, "", n.Ino)
		return n, abs, nil
	}
	if p == nil {
		return nil, "", perr("open", path, syscall.EISDIR)
	}
	n = f.newInode(KFile)
	p.Ents[name] = n
	f.journal("create", abs, "", n.Ino)
	return n, abs, nil
}

func (f *FS) AppendData(n *Inode, abs string, data []byte) {
	nd := make([]byte, 0, len(n.Data)+len(data))
	nd = append(nd, n.Data...)
	nd = append(nd, data...)
	n.Data = nd
	n.Mtime = f.s.Cfg.Epoch + f.s.now
	f.journal("write", abs, fmt.Sprint(len(data)), n.Ino)
}

// WriteAt writes data at an offset of a regular file (each open file
// description has its own offset, as in POSIX: two writers that both
// truncated and then write overwrite each other from offset 0).
func (f *FS) WriteAt(n *Inode, abs string, off int, data []byte) {
	size := len(n.Data)
	if off+len(data) > size {
		size = off + len(data)
	}
	nd := make([]byte, size)
	copy(nd, n.Data)
	copy(nd[off:], data)
	n.Data = nd
	n.Mtime = f.s.Cfg.Epoch + f.s.now
	f.journal("write", abs, fmt.Sprint(len(data)), n.Ino)
}

func (f *FS) Mkfifo(cwd, path string) error {
	p, name, n, abs, e := f.walk(cwd, path)
	if e != 0 {
		return perr("mkfifo", path, e)
	}
	if n != nil {
		return perr("mkfifo", path, syscall.EEXIST)
	}
	d := f.newInode(KFifo)
	p.Ents[name] = d
	f.journal("mkfifo", abs, "", d.Ino)
	return nil
}

func (f *FS) Remove(cwd, path string) error {
	p, name, n, abs, e := f.walk(cwd, path)
	if e != 0 {
		return perr("remove", path, e)
	}
	if n == nil {
		return perr("remove", path, syscall.ENOENT)
	}
	if p == nil {
		return perr("remove", path, syscall.EBUSY)
	}
	if n.Kind == KDir && len(n.Ents) > 0 {
		return perr("remove", path, syscall.ENOTEMPTY)
	}
	delete(p.Ents, name)
	f.journal("remove", abs, "", n.Ino)
	return nil
}

func (f *FS) RemoveAll(cwd, path string) error {
	_, _, n, _, e := f.walk(cwd, path)
	if e != 0 {
		if e == syscall.ENOENT {
			return nil
		}
		return perr("removeall", path, e)
	}
	if n == nil {
		return nil
	}
	if n.Kind == KDir {
		names := make([]string, 0, len(n.Ents))
		for k := range n.Ents {
			names = append(names, k)
		}
		sort.Strings(names)
		for _, k := range names {
			if err := f.RemoveAll(cwd, path+"/"+k); err != nil {
				return err
			}
		}
	}
	return f.Remove(cwd, path)
}

func (f *FS) Rename(cwd, oldp, newp string) error {
	op, oname, on, oabs, e := f.walk(cwd, oldp)
	if e != 0 {
		return &os.LinkError{Op: "rename", Old: oldp, New: newp, Err: e}
	}
	// (the kernel resolves both parent directories before it looks at the old
	// name itself; Go's os.Rename refuses any existing directory as new name)
	np, nname, nn, nabs, e := f.walk(cwd, newp)
	if nn != nil && nn.Kind == KDir && e == 0 {
		if on == nil {
			return &os.LinkError{Op: "rename", Old: oldp, New: newp, Err: syscall.ENOENT}
		}
		if newp == oldp || nn != on {
			return &os.LinkError{Op: "rename", Old: oldp, New: newp, Err: syscall.EEXIST}
		}
	}
	if e != 0 {
		return &os.LinkError{Op: "rename", Old: oldp, New: newp, Err: e}
	}
	if on == nil {
		return &os.LinkError{Op: "rename", Old: oldp, New: newp, Err: syscall.ENOENT}
	}
	if op == nil || np == nil {
		return &os.LinkError{Op: "rename", Old: oldp, New: newp, Err: syscall.EBUSY}
	}
	if nn == on {
		return nil
	}
	if on.Kind == KDir && strings.HasPrefix(nabs+"/", oabs+"/") {
		return &os.LinkError{Op: "rename", Old: oldp, New: newp, Err: syscall.EINVAL}
	}
	if nn != nil {
		if on.Kind == KDir {
			if nn.Kind != KDir {
				return &os.LinkError{Op: "rename", Old: oldp, New: newp, Err: syscall.ENOTDIR}
			}
			if len(nn.Ents) > 0 {
				return &os.LinkError{Op: "rename", Old: oldp, New: newp, Err: syscall.ENOTEMPTY}
			}
		} else if nn.Kind == KDir {
			return &os.LinkError{Op: "rename", Old: oldp, New: newp, Err: syscall.EISDIR}
		}
	}
	if deviceOf(oabs) != deviceOf(nabs) {
		return &os.LinkError{Op: "rename", Old: oldp, New: newp, Err: syscall.EXDEV}
	}
	if on.Kind == KDir && strings.HasPrefix(nabs+"/", oabs+"/") {
		return &os.LinkError{Op: "rename", Old: oldp, New: newp, Err: syscall.EINVAL}
	}
	delete(op.Ents, oname)
	np.Ents[nname] = on
	f.journal("rename", oabs, nabs, on.Ino)
	return nil
}

// DeviceRoots: absolute directories that are mount points of other file
// systems; a rename across a device boundary fails with EXDEV as on Linux.
var DeviceRoots = []string{"/mnt"}

func deviceOf(abs string) string {
	for _, d := range DeviceRoots {
		if abs == d || strings.HasPrefix(abs, d+"/") {
			return d
		}
	}
	return "/"
}

func (f *FS) ReadDirNames(cwd, path string) ([]string, error) {
	n, err := f.Lookup(cwd, path)
	if err != nil {
		return nil, err
	}
	if n.Kind != KDir {
		return nil, perr("readdir", path, syscall.ENOTDIR)
	}
	names := make([]string, 0, len(n.Ents))
	for k := range n.Ents {
		names = append(names, k)
	}
	sort.Strings(names)
	return names, nil
}

// --- FileInfo -------------------------------------------------------------------

type FileInfo struct {
	name string
	n    *Inode
	size int64
	mt   int64
}

func infoOf(name string, n *Inode) *FileInfo {
	return &FileInfo{name: name, n: n, size: int64(len(n.Data)), mt: n.Mtime}
}
func (fi *FileInfo) Name() string { return fi.name }
func (fi *FileInfo) Size() int64  { return fi.size }
func (fi *FileInfo) Mode() iofs.FileMode {
	m := iofs.FileMode(fi.n.Mode)
	switch fi.n.Kind {
	case KDir:
		m |= iofs.ModeDir
	case KFifo:
		m |= iofs.ModeNamedPipe
	case KSymlink:
		m |= iofs.ModeSymlink
	}
	return m
}
func (fi *FileInfo) ModTime() time.Time { return time.Unix(0, fi.mt) }
func (fi *FileInfo) IsDir() bool        { return fi.n.Kind == KDir }
func (fi *FileInfo) Sys() any           { return fi.n }

func base(p string) string {
	p = strings.TrimRight(p, "/")
	if i := strings.LastIndex(p, "/"); i >= 0 {
		return p[i+1:]
	}
	if p == "" {
		return "/"
	}
	return p
}

// --- scheduled entry points for Go code (os / ioutil shims) ---------------------

// fdFault: called by every entry point that needs a file descriptor, before it
// does anything else.
func (f *FS) fdFault(op, path string) error {
	f.goOpens++
	if c := f.s.Cfg; c.NoFDFrom > 0 && f.goOpens >= c.NoFDFrom && f.goOpens < c.NoFDFrom+c.NoFDLen {
		f.s.Fault("fd-exhaustion")
		return perr(op, path, syscall.EMFILE)
	}
	return nil
}

func (f *FS) GoStat(path string) (iofs.FileInfo, error) {
	f.s.Pre("stat", 0, path)
	n, err := f.Lookup(f.Cwd, path)
	if err != nil {
		return nil, err
	}
	return infoOf(base(path), n), nil
}

func (f *FS) GoMkdirAll(path string) error {
	f.s.Pre("mkdirall", 0, path)
	return f.MkdirAll(f.Cwd, path)
}

func (f *FS) GoMkdir(path string) error {
	f.s.Pre("mkdir", 0, path)
	return f.Mkdir(f.Cwd, path)
}

func (f *FS) GoRemove(path string) error {
	f.s.Pre("remove", 0, path)
	return f.Remove(f.Cwd, path)
}

func (f *FS) GoRemoveAll(path string) error {
	f.s.Pre("removeall", 0, path)
	return f.RemoveAll(f.Cwd, path)
}

func (f *FS) GoRename(o, n string) error {
	f.s.Pre("rename", 0, o+" "+n)
	return f.Rename(f.Cwd, o, n)
}

func (f *FS) GoReadFile(path string) ([]byte, error) {
	f.s.Pre("readfile", 0, path)
	if err := f.fdFault("open", path); err != nil {
		return nil, err
	}
	n, err := f.Lookup(f.Cwd, path)
	if err != nil {
		if pe, ok := err.(*iofs.PathError); ok {
			pe.Op = "open"
		}
		return nil, err
	}
	if n.Kind == KDir {
		return nil, perr("read", path, syscall.EISDIR)
	}
	if n.Kind == KFifo {
		data, _ := f.s.Shell.readFifo(n, path)
		return data, nil
	}
	return append([]byte(nil), n.Data...), nil
}

// GoWriteFile is two steps: create/truncate, then write (a kill between the
// two leaves an empty file, as with the real ioutil.WriteFile).
func (f *FS) GoWriteFile(path string, data []byte) error {
	f.s.Pre("writefile-open", 0, path)
	if err := f.fdFault("open", path); err != nil {
		return err
	}
	n, abs, err := f.Create(f.Cwd, path)
	if err != nil {
		return err
	}
	f.s.Pre("writefile-write", 0, path)
	if len(data) > 0 {
		k, full := f.goWriteFault(abs, len(data))
		if k > 0 {
			f.WriteAt(n, abs, 0, data[:k])
		}
		if full {
			return perr("write", path, syscall.ENOSPC)
		}
	}
	return nil
}

func (f *FS) GoReadDir(path string) ([]iofs.FileInfo, error) {
	f.s.Pre("readdir", 0, path)
	if err := f.fdFault("open", path); err != nil {
		return nil, err
	}
	names, err := f.ReadDirNames(f.Cwd, path)
	if err != nil {
		return nil, err
	}
	d, _ := f.Lookup(f.Cwd, path)
	var out []iofs.FileInfo
	for _, k := range names {
		out = append(out, infoOf(k, d.Ents[k]))
	}
	return out, nil
}

// --- File handles ---------------------------------------------------------------

// goWriteFault decides whether a Go-level data write to abs is the one that
// hits the full disk; it returns how many bytes are stored.
func (f *FS) goWriteFault(abs string, n int) (int, bool) {
	if f.s.Cfg.DiskFullAt <= 0 || n == 0 || !(strings.Contains(abs, "/_scipipe_tmp") || strings.HasSuffix(abs, ".audit.json")) {
		return n, false
	}
	f.goWrites++
	if f.goWrites != f.s.Cfg.DiskFullAt {
		return n, false
	}
	f.s.Fault("disk-full")
	return n / 2, true
}

type File struct {
	fs     *FS
	n      *Inode
	name   string
	abs    string
	pos    int
	write  bool
	closed bool
	std    int // 1: Stdout, 2: Stderr (sink of the current simulation)
	app    bool
	fifo   int // 1: read end, 2: write end of a FIFO opened by Go code
}

func (f *FS) GoOpen(path string) (*File, error) {
	f.s.Pre("open", 0, path)
	if err := f.fdFault("open", path); err != nil {
		return nil, err
	}
	n, err := f.Lookup(f.Cwd, path)
	if err != nil {
		if pe, ok := err.(*iofs.PathError); ok {
			pe.Op = "open"
		}
		return nil, err
	}
	if n.Kind == KFifo {
		// open(O_RDONLY) of a FIFO by Go code: blocks until a writer opens it
		f.s.Shell.openFifoRead(n, path)
		return &File{fs: f, n: n, name: path, fifo: 1}, nil
	}
	return &File{fs: f, n: n, name: path}, nil
}

func (f *FS) GoCreate(path string) (*File, error) {
	f.s.Pre("create", 0, path)
	if err := f.fdFault("open", path); err != nil {
		return nil, err
	}
	n, abs, err := f.Create(f.Cwd, path)
	if err != nil {
		return nil, err
	}
	if n.Kind == KFifo {
		f.s.HarnessFail("Go-level open of a FIFO is not modelled: " + path)
	}
	return &File{fs: f, n: n, name: path, abs: abs, write: true}, nil
}

func (f *FS) GoTempFile(dir, pattern string) (*File, error) {
	if dir == "" {
		dir = "/tmp"
	}
	f.tmpSeq++
	// the real name is random; draw it from the tape-seeded state so that
	// runs are repeatable while names still differ between incarnations
	suffix := fmt.Sprintf("%09d", (uint64(f.s.Tape.Seed)*2654435761+uint64(f.tmpSeq)*40503+uint64(f.s.now))%1000000000)
	name := pattern + suffix
	if i := strings.LastIndex(pattern, "*"); i >= 0 {
		name = pattern[:i] + suffix + pattern[i+1:]
	}
	return f.GoCreate(dir + "/" + name)
}

func (fl *File) Name() string { return fl.name }

func (fl *File) Write(b []byte) (int, error) {
	if fl.std != 0 {
		if S != nil {
			if fl.std == 1 {
				S.Stdout = append(S.Stdout, b...)
			} else {
				S.Stderr = append(S.Stderr, b...)
			}
		}
		return len(b), nil
	}
	s := fl.fs.s
	s.check()
	if fl.closed {
		return 0, perr("write", fl.name, syscall.EBADF)
	}
	if !fl.write {
		return 0, perr("write", fl.name, syscall.EBADF)
	}
	if fl.fifo == 2 {
		// (Go ignores SIGPIPE on descriptors other than 1 and 2: the write fails with EPIPE)
		if !s.Shell.writeOpenFifo(fl.n, fl.name, b) {
			return 0, perr("write", fl.name, syscall.EPIPE)
		}
		return len(b), nil
	}
	if !strings.HasPrefix(fl.abs, "/work/log/") {
		// a write(2) of Go code is a scheduling point like any other system call
		// (round 6; the library's own log file is exempt: logging never yields)
		s.Pre("write", fl.n.Ino, fl.name)
	}
	if len(b) > 0 {
		k, full := fl.fs.goWriteFault(fl.abs, len(b))
		if k > 0 {
			if fl.app {
				fl.fs.AppendData(fl.n, fl.abs, b[:k])
			} else {
				fl.fs.WriteAt(fl.n, fl.abs, fl.pos, b[:k])
				fl.pos += k
			}
		}
		if full {
			return k, perr("write", fl.name, syscall.ENOSPC)
		}
	}
	return len(b), nil
}

func (fl *File) WriteString(str string) (int, error) { return fl.Write([]byte(str)) }

func (fl *File) Read(b []byte) (int, error) {
	if fl.std != 0 {
		return 0, io.EOF
	}
	fl.fs.s.check()
	if fl.closed {
		return 0, perr("read", fl.name, syscall.EBADF)
	}
	if fl.fifo == 1 {
		return fl.fs.s.Shell.readOpenFifo(fl.n, fl.name, b)
	}
	if fl.n.Kind == KDir {
		return 0, perr("read", fl.name, syscall.EISDIR)
	}
	if fl.pos >= len(fl.n.Data) {
		return 0, io.EOF
	}
	n := copy(b, fl.n.Data[fl.pos:])
	fl.pos += n
	return n, nil
}

func (fl *File) Close() error {
	if fl.std != 0 {
		return nil
	}
	fl.fs.s.check()
	if fl.closed {
		return perr("close", fl.name, syscall.EBADF)
	}
	fl.closed = true
	if fl.fifo != 0 {
		fl.fs.s.Shell.closeOpenFifo(fl.n, fl.name, fl.fifo == 2)
	}
	return nil
}

func (fl *File) Stat() (iofs.FileInfo, error) {
	if fl.std != 0 {
		return nil, perr("stat", fl.name, syscall.EINVAL)
	}
	return infoOf(base(fl.name), fl.n), nil
}

func (fl *File) Sync() error { return nil }

// StdFile returns the process-wide stdout (1) / stderr (2) handle; writes go
// to the simulation that is current at the time of the write.
func StdFile(name string, which int) *File { return &File{name: name, std: which} }

const (
	O_RDONLY = 0x0
	O_WRONLY = 0x1
	O_RDWR   = 0x2
	O_APPEND = 0x400
	O_CREATE = 0x40
	O_EXCL   = 0x80
	O_TRUNC  = 0x200
)

func (f *FS) GoOpenFile(path string, flag int) (*File, error) {
	if flag&(O_WRONLY|O_RDWR) == 0 {
		return f.GoOpen(path)
	}
	f.s.Pre("openfile", flag, path)
	if err := f.fdFault("open", path); err != nil {
		return nil, err
	}
	n, err := f.Lookup(f.Cwd, path)
	if err != nil {
		if flag&O_CREATE == 0 {
			return nil, perr("open", path, syscall.ENOENT)
		}
		n2, abs, err := f.Create(f.Cwd, path)
		if err != nil {
			return nil, err
		}
		return &File{fs: f, n: n2, name: path, abs: abs, write: true}, nil
	}
	if flag&O_EXCL != 0 && flag&O_CREATE != 0 {
		return nil, perr("open", path, syscall.EEXIST)
	}
	if n.Kind == KDir {
		return nil, perr("open", path, syscall.EISDIR)
	}
	if n.Kind == KFifo {
		f.s.Shell.openFifoWrite(n, path)
		return &File{fs: f, n: n, name: path, write: true, fifo: 2}, nil
	}
	_, _, _, abs, _ := f.walk(f.Cwd, path)
	if flag&O_TRUNC != 0 {
		n.Data = nil
		n.Mtime = f.s.Cfg.Epoch + f.s.now
		f.journal("truncate", abs, "", n.Ino)
	}
	return &File{fs: f, n: n, name: path, abs: abs, write: true, app: flag&O_APPEND != 0}, nil
}

// --- tree listing for oracles ---------------------------------------------------

type Entry struct {
	Path  string
	Kind  Kind
	Ino   int
	Mtime int64
	Data  []byte
}

// List returns every entry below root (absolute paths), sorted.
func List(root *Inode) []Entry {
	var out []Entry
	var rec func(p string, n *Inode)
	rec = func(p string, n *Inode) {
		if p != "" {
			out = append(out, Entry{Path: p, Kind: n.Kind, Ino: n.Ino, Mtime: n.Mtime, Data: n.Data})
		}
		if n.Kind == KDir {
			names := make([]string, 0, len(n.Ents))
			for k := range n.Ents {
				names = append(names, k)
			}
			sort.Strings(names)
			for _, k := range names {
				rec(p+"/"+k, n.Ents[k])
			}
		}
	}
	rec("", root)
	return out
}

func Find(root *Inode, abs string) *Inode {
	cur := root
	for _, c := range strings.Split(abs, "/") {
		if c == "" {
			continue
		}
		if cur == nil || cur.Kind != KDir {
			return nil
		}
		cur = cur.Ents[c]
	}
	return cur
}

// PutFile places a file directly into a tree (harness set-up, not journaled).
func (f *FS) PutFile(abs string, data []byte) *Inode {
	dir := abs[:strings.LastIndex(abs, "/")]
	f.mkdirAllNoJournal(dir)
	d := Find(f.Root, dir)
	n := &Inode{Ino: f.NextIno, Kind: KFile, Data: data, Mtime: f.s.Cfg.Epoch - 1e9, Mode: 0644}
	f.NextIno++
	d.Ents[base(abs)] = n
	return n
}

// --- Walk / Glob -----------------------------------------------------------------

func (f *FS) GoWalk(root string, fn func(path string, info iofs.FileInfo, err error) error) error {
	f.s.Pre("walk", 0, root)
	n, err := f.Lookup(f.Cwd, root)
	if err != nil {
		return fn(root, nil, err)
	}
	return f.walkRec(root, n, fn)
}

var SkipDir = iofs.SkipDir

func (f *FS) walkRec(path string, n *Inode, fn func(string, iofs.FileInfo, error) error) error {
	err := fn(path, infoOf(base(path), n), nil)
	if err != nil {
		if n.Kind == KDir && err == SkipDir {
			return nil
		}
		return err
	}
	if n.Kind != KDir {
		return nil
	}
	names := make([]string, 0, len(n.Ents))
	for k := range n.Ents {
		names = append(names, k)
	}
	sort.Strings(names)
	kids := make([]*Inode, len(names))
	for i, k := range names {
		kids[i] = n.Ents[k]
	}
	for i, k := range names {
		c := kids[i]
		var p string
		if strings.HasSuffix(path, "/") {
			p = path + k
		} else {
			p = path + "/" + k
		}
		if c == nil || n.Ents[k] != c { // removed by the callback meanwhile: lstat fails
			if err := fn(p, nil, perr("lstat", p, syscall.ENOENT)); err != nil && err != SkipDir {
				return err
			}
			continue
		}
		if err := f.walkRec(p, c, fn); err != nil {
			if err == SkipDir {
				continue
			}
			return err
		}
	}
	return nil
}

// --- Glob (port of path/filepath.Glob onto the simulated tree) --------------------

func hasMeta(p string) bool { return strings.ContainsAny(p, `*?[\`) }

func (f *FS) GoGlob(pattern string) ([]string, error) {
	f.s.Pre("glob", 0, pattern)
	return f.glob(pattern)
}

func (f *FS) glob(pattern string) ([]string, error) {
	if _, err := pathMatch(pattern, ""); err != nil {
		return nil, err
	}
	if !hasMeta(pattern) {
		if _, err := f.Lookup(f.Cwd, pattern); err != nil {
			return nil, nil
		}
		return []string{pattern}, nil
	}
	dir, file := splitPath(pattern)
	dir = cleanGlobPath(dir)
	if !hasMeta(dir) {
		return f.globDir(dir, file, nil)
	}
	if dir == pattern {
		return nil, errBadPattern
	}
	m, err := f.glob(dir)
	if err != nil {
		return nil, err
	}
	var matches []string
	for _, d := range m {
		matches, err = f.globDir(d, file, matches)
		if err != nil {
			return nil, err
		}
	}
	return matches, nil
}

func splitPath(p string) (string, string) {
	i := strings.LastIndex(p, "/")
	return p[:i+1], p[i+1:]
}

func cleanGlobPath(p string) string {
	switch p {
	case "":
		return "."
	case "/":
		return p
	default:
		return p[:len(p)-1]
	}
}

func (f *FS) globDir(dir, pattern string, matches []string) ([]string, error) {
	n, err := f.Lookup(f.Cwd, dir)
	if err != nil || n.Kind != KDir {
		return matches, nil
	}
	names, _ := f.ReadDirNames(f.Cwd, dir)
	for _, k := range names {
		ok, err := pathMatch(pattern, k)
		if err != nil {
			return matches, err
		}
		if ok {
			if dir == "." {
				matches = append(matches, k)
			} else if strings.HasSuffix(dir, "/") {
				matches = append(matches, dir+k)
			} else {
				matches = append(matches, dir+"/"+k)
			}
		}
	}
	return matches, nil
}
