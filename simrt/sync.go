package simrt

import "fmt"

// Simulated sync primitives. Zero values are ready to use, like the real ones.
// Unlock wakes every waiter and lets them re-contend (barging is allowed by
// Go's mutex), so which waiter wins is a scheduling choice.

type Mutex struct {
	id      int
	owner   *Sim
	locked  bool
	waiters []*G
	vc      VC
}

// ident: identity is per simulation. A mutex that outlives a simulation
// (package-level loggers) is reset when first touched by the next one, so no
// state - not even "locked when the program was killed" - leaks between runs.
func (m *Mutex) ident() int {
	if m.id == 0 || m.owner != S {
		*m = Mutex{id: S.newObj(), owner: S}
	}
	return m.id
}

func (m *Mutex) Lock() {
	s := S
	s.Pre("lock", m.ident(), "")
	for m.locked {
		s.Probe("mutex-contended")
		m.waiters = append(m.waiters, s.cur)
		s.park(fmt.Sprintf("mutex #%d", m.id))
	}
	m.locked = true
	if s.race != nil {
		s.race.acquire(s.cur, m.vc)
	}
}

func (m *Mutex) TryLock() bool {
	s := S
	s.Pre("trylock", m.ident(), "")
	if m.locked {
		return false
	}
	m.locked = true
	if s.race != nil {
		s.race.acquire(s.cur, m.vc)
	}
	return true
}

// Unlock releases the mutex and is then a scheduling point of its own: code
// that follows an unlock without further synchronisation ("check outside the
// lock") must be separable from it by other goroutines, as on the real runtime.
func (m *Mutex) Unlock() {
	m.UnlockQuiet()
	S.Pre("unlocked", m.id, "")
}

// UnlockQuiet: no scheduling point after the release (the simulator's own shims).
func (m *Mutex) UnlockQuiet() {
	s := S
	s.check()
	s.ev("unlock", m.ident(), "")
	if !m.locked {
		panic("sync: unlock of unlocked mutex")
	}
	m.locked = false
	if s.race != nil {
		m.vc = s.race.release(s.cur)
	}
	for _, g := range m.waiters {
		s.ready(g)
	}
	m.waiters = nil
}

type RWMutex struct {
	id      int
	owner   *Sim
	writer  bool
	readers int
	waiters []*G
	wvc     VC // released by writers
	rvc     VC // join of released readers
}

func (m *RWMutex) ident() int {
	if m.id == 0 || m.owner != S {
		*m = RWMutex{id: S.newObj(), owner: S}
	}
	return m.id
}

func (m *RWMutex) Lock() {
	s := S
	s.Pre("lock", m.ident(), "w")
	for m.writer || m.readers > 0 {
		m.waiters = append(m.waiters, s.cur)
		s.park(fmt.Sprintf("rwmutex #%d (write)", m.id))
	}
	m.writer = true
	if s.race != nil {
		s.race.acquire(s.cur, m.wvc)
		s.race.acquire(s.cur, m.rvc)
	}
}

func (m *RWMutex) Unlock() {
	m.UnlockQuiet()
	S.Pre("unlocked", m.id, "w")
}

func (m *RWMutex) UnlockQuiet() {
	s := S
	s.check()
	s.ev("unlock", m.ident(), "w")
	if !m.writer {
		panic("sync: Unlock of unlocked RWMutex")
	}
	m.writer = false
	if s.race != nil {
		m.wvc = s.race.release(s.cur)
	}
	m.wakeAll(s)
}

func (m *RWMutex) RLock() {
	s := S
	s.Pre("lock", m.ident(), "r")
	for m.writer {
		m.waiters = append(m.waiters, s.cur)
		s.park(fmt.Sprintf("rwmutex #%d (read)", m.id))
	}
	m.readers++
	if s.race != nil {
		s.race.acquire(s.cur, m.wvc)
	}
}

func (m *RWMutex) RUnlock() {
	m.rUnlockQuiet()
	S.Pre("unlocked", m.id, "r")
}

func (m *RWMutex) rUnlockQuiet() {
	s := S
	s.check()
	s.ev("unlock", m.ident(), "r")
	if m.readers <= 0 {
		panic("sync: RUnlock of unlocked RWMutex")
	}
	m.readers--
	if s.race != nil {
		joinInto(&m.rvc, s.race.release(s.cur))
	}
	m.wakeAll(s)
}

func (m *RWMutex) wakeAll(s *Sim) {
	for _, g := range m.waiters {
		s.ready(g)
	}
	m.waiters = nil
}

type WaitGroup struct {
	id      int
	owner   *Sim
	n       int
	waiters []*G
	vc      VC
}

// Pending: the current counter (for the simulator's own use).
func (w *WaitGroup) Pending() int {
	w.ident()
	return w.n
}

func (w *WaitGroup) ident() int {
	if w.id == 0 || w.owner != S {
		*w = WaitGroup{id: S.newObj(), owner: S}
	}
	return w.id
}

func (w *WaitGroup) Add(d int) {
	s := S
	s.check()
	s.ev("wg-add", w.ident(), "")
	if s.race != nil && d < 0 {
		joinInto(&w.vc, s.race.release(s.cur))
	}
	w.n += d
	if w.n < 0 {
		panic("sync: negative WaitGroup counter")
	}
	if w.n == 0 {
		for _, g := range w.waiters {
			if s.race != nil {
				s.race.acquire(g, w.vc)
			}
			s.ready(g)
		}
		w.waiters = nil
	}
}

func (w *WaitGroup) Done() { w.Add(-1) }

func (w *WaitGroup) Wait() {
	s := S
	s.Pre("wg-wait", w.ident(), "")
	if w.n > 0 {
		w.waiters = append(w.waiters, s.cur)
		s.park(fmt.Sprintf("waitgroup #%d", w.id))
		return
	}
	if s.race != nil {
		s.race.acquire(s.cur, w.vc)
	}
}

type Once struct {
	m    Mutex
	done bool
}

func (o *Once) Do(f func()) {
	o.m.Lock()
	defer o.m.Unlock()
	if !o.done {
		defer func() { o.done = true }()
		f()
	}
}

// Cond: simulated condition variable (L is any Locker, normally *Mutex).
type Cond struct {
	L interface {
		Lock()
		Unlock()
	}
	id      int
	owner   *Sim
	waiters []*G
}

func NewCond(l interface {
	Lock()
	Unlock()
}) *Cond {
	return &Cond{L: l}
}

func (c *Cond) ident() int {
	if c.id == 0 || c.owner != S {
		c.id, c.owner, c.waiters = S.newObj(), S, nil
	}
	return c.id
}

func (c *Cond) Wait() {
	s := S
	s.check()
	s.ev("cond-wait", c.ident(), "")
	c.waiters = append(c.waiters, s.cur)
	// (unlock and park are one atomic step: no scheduling point in between)
	if q, ok := c.L.(interface{ UnlockQuiet() }); ok {
		q.UnlockQuiet()
	} else {
		c.L.Unlock()
	}
	s.park(fmt.Sprintf("cond #%d", c.id))
	c.L.Lock()
}

func (c *Cond) Signal() {
	s := S
	s.check()
	s.ev("cond-signal", c.ident(), "")
	if len(c.waiters) > 0 {
		k := s.Tape.Choose(StSched, len(c.waiters), 0.7)
		g := c.waiters[k]
		c.waiters = append(c.waiters[:k], c.waiters[k+1:]...)
		s.ready(g)
	}
}

func (c *Cond) Broadcast() {
	s := S
	s.check()
	s.ev("cond-broadcast", c.ident(), "")
	for _, g := range c.waiters {
		s.ready(g)
	}
	c.waiters = nil
}
