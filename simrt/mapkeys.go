package simrt

import (
	"fmt"
	"sort"
)

// MapKeys replaces `range m` over a map: Go leaves the iteration order
// unspecified (and randomises it with an unseedable runtime RNG), so every
// permutation is a legal execution. The canonical (sorted) order is permuted
// by choices from the "map" stream; choice 0 everywhere = sorted order.
func MapKeys[K comparable, V any](m map[K]V) []K {
	keys := make([]K, 0, len(m))
	for k := range m {
		keys = append(keys, k)
	}
	if len(keys) <= 1 {
		return keys
	}
	sortKeys(keys)
	s := S
	if s == nil || s.cur == nil || s.ended {
		return keys
	}
	perm := false
	for i := 0; i < len(keys)-1; i++ {
		j := i + s.Tape.Choose(StMap, len(keys)-i, 0.6)
		if j != i {
			keys[i], keys[j] = keys[j], keys[i]
			perm = true
		}
	}
	if perm {
		s.Fault("map-order")
	}
	return keys
}

func sortKeys[K comparable](keys []K) {
	switch ks := any(keys).(type) {
	case []string:
		sort.Strings(ks)
	case []int:
		sort.Ints(ks)
	default:
		sort.Slice(keys, func(i, j int) bool {
			return fmt.Sprint(keys[i]) < fmt.Sprint(keys[j])
		})
	}
}

// ZeroKey / ZeroVal declare the per-loop variables of a rewritten map range
// without having to print their types.
func ZeroKey[K comparable, V any](m map[K]V) (k K) { return }
func ZeroVal[K comparable, V any](m map[K]V) (v V) { return }

// ZeroElem: the zero value of a channel's element type (declares the loop
// variable of a rewritten range-over-channel once, before the loop).
func ZeroElem[C interface{ ~chan T | ~<-chan T }, T any](ch C) (v T) { return }
