package simrt

import (
	"fmt"
	"reflect"
	"sort"
	"unsafe"
)

// In-simulator happens-before race checker (C12). Vector clocks per simulated
// goroutine; edges come ONLY from simulated synchronisation, exactly the Go
// memory model's list (DESIGN.md A.3). The scheduler's own hand-offs add no
// edge, so a pair of accesses that is unordered here is unordered in the real
// execution with the same schedule.

type VC []uint32

func (v VC) get(i int) uint32 {
	if i < len(v) {
		return v[i]
	}
	return 0
}

func joinInto(dst *VC, src VC) {
	if len(src) > len(*dst) {
		n := make(VC, len(src))
		copy(n, *dst)
		*dst = n
	}
	for i, x := range src {
		if x > (*dst)[i] {
			(*dst)[i] = x
		}
	}
}

type access struct {
	gid   int
	clk   uint32
	site  string
	write bool
}

type shadow struct {
	w     *access
	reads map[int]*access
	desc  string
}

type RaceReport struct {
	Desc   string
	A, B   string // site labels, sorted
	AWrite bool
	BWrite bool
}

func (r RaceReport) Key() string { return r.A + " <-> " + r.B }

type raceState struct {
	mem     map[uintptr]*shadow
	pins    []any
	Reports []RaceReport
	seen    map[string]bool
}

func newRaceState() *raceState {
	return &raceState{mem: map[uintptr]*shadow{}, seen: map[string]bool{}}
}

func (s *Sim) RaceReports() []RaceReport {
	if s.race == nil {
		return nil
	}
	return s.race.Reports
}

func (r *raceState) tick(g *G) {
	if len(g.vc) <= g.ID {
		n := make(VC, g.ID+1)
		copy(n, g.vc)
		g.vc = n
	}
	g.vc[g.ID]++
}

func (r *raceState) snapshot(g *G) VC {
	r.tick(g)
	c := make(VC, len(g.vc))
	copy(c, g.vc)
	return c
}

// release: returns a copy of g's clock and advances g.
func (r *raceState) release(g *G) VC { return r.snapshot(g) }

func (r *raceState) acquire(g *G, vc VC) {
	if vc != nil {
		joinInto(&g.vc, vc)
	}
}

func (r *raceState) fork(parent, child *G) {
	child.vc = r.snapshot(parent)
	r.tick(child)
}

// sender (running) hands a value directly to a parked receiver.
func (r *raceState) handoff(sender, recv *G) {
	old := make(VC, len(recv.vc))
	copy(old, recv.vc)
	r.acquire(recv, r.snapshot(sender))
	// completion of the send is after the (matching) receive began: for
	// unbuffered channels the receive happens-before the send completes.
	r.acquire(sender, old)
	r.tick(recv)
}

// receiver (running) takes a value from a parked sender on an unbuffered chan.
func (r *raceState) handoffRecv(recv *G, w *waiter) {
	r.acquire(recv, w.vc)
	r.acquire(w.g, r.snapshot(recv))
}

func (r *raceState) bufSend(sender *G, c *chanState) {
	c.bufvc = append(c.bufvc, r.snapshot(sender))
	// k-th receive happens-before the (k+cap)-th send completes
	if c.nsent > c.cap && c.nsent-c.cap-1 < len(c.recvVCs) {
		r.acquire(sender, c.recvVCs[c.nsent-c.cap-1])
	}
}

func (r *raceState) bufRecv(recv *G, c *chanState) {
	if len(c.bufvc) > 0 {
		r.acquire(recv, c.bufvc[0])
		c.bufvc = c.bufvc[1:]
	}
	c.recvVCs = append(c.recvVCs, r.snapshot(recv))
}

// a parked sender's value is moved into the buffer by the running receiver.
func (r *raceState) bufSendBlocked(recv *G, w *waiter, c *chanState) {
	c.bufvc = append(c.bufvc, w.vc)
	r.acquire(w.g, c.recvVCs[len(c.recvVCs)-1])
}

// --- memory accesses -----------------------------------------------------------

func (r *raceState) report(desc string, a, b *access) {
	x, y := a, b
	if x.site > y.site {
		x, y = y, x
	}
	rep := RaceReport{Desc: desc, A: x.site, B: y.site, AWrite: x.write, BWrite: y.write}
	k := rep.Key()
	if r.seen[k] {
		return
	}
	r.seen[k] = true
	r.Reports = append(r.Reports, rep)
}

func (r *raceState) access(g *G, addr uintptr, write bool, site, desc string, pin any) {
	sh := r.mem[addr]
	if sh == nil {
		sh = &shadow{reads: map[int]*access{}, desc: desc}
		r.mem[addr] = sh
		if pin != nil {
			// keep the object alive for the run so that its address is never reused
			r.pins = append(r.pins, pin)
		}
	}
	clk := g.vc.get(g.ID)
	cur := &access{gid: g.ID, clk: clk, site: site, write: write}
	if sh.w != nil && sh.w.gid != g.ID && sh.w.clk > g.vc.get(sh.w.gid) {
		r.report(sh.desc, sh.w, cur)
	}
	if write {
		ids := make([]int, 0, len(sh.reads))
		for id := range sh.reads {
			ids = append(ids, id)
		}
		sort.Ints(ids)
		for _, id := range ids {
			a := sh.reads[id]
			if a.gid != g.ID && a.clk > g.vc.get(a.gid) {
				r.report(sh.desc, a, cur)
			}
		}
		sh.w = cur
		sh.reads = map[int]*access{}
	} else {
		sh.reads[g.ID] = cur
	}
}

func (s *Sim) raceOn() bool { return s.race != nil && s.cur != nil && !s.ended }

// R / W: read / write of an addressable location (struct field, slice
// element, package variable). Return the pointer so that the rewriter can
// wrap expressions as *simrt.R(&x.f, site).
func R[T any](p *T, site string) *T {
	s := S
	if s != nil && s.raceOn() && p != nil {
		if len(s.cur.vc) == 0 {
			s.race.tick(s.cur)
		}
		s.race.access(s.cur, uintptr(unsafe.Pointer(p)), false, site, "var", p)
	}
	return p
}

func W[T any](p *T, site string) *T {
	s := S
	if s != nil && s.raceOn() && p != nil {
		if len(s.cur.vc) == 0 {
			s.race.tick(s.cur)
		}
		s.race.access(s.cur, uintptr(unsafe.Pointer(p)), true, site, "var", p)
	}
	return p
}

func mapAddr(m any) uintptr {
	v := reflect.ValueOf(m)
	if v.Kind() != reflect.Map || v.IsNil() {
		return 0
	}
	return v.Pointer()
}

// MapR / MapW: the whole map is one location (as for Go's race detector,
// which instruments the map header on every access).
func MapR[M any](m M, site string) M {
	s := S
	if s != nil && s.raceOn() {
		if a := mapAddr(m); a != 0 {
			if len(s.cur.vc) == 0 {
				s.race.tick(s.cur)
			}
			s.race.access(s.cur, a, false, site, "map", m)
		}
	}
	return m
}

func MapW[M any](m M, site string) M {
	s := S
	if s != nil && s.raceOn() {
		if a := mapAddr(m); a != 0 {
			if len(s.cur.vc) == 0 {
				s.race.tick(s.cur)
			}
			s.race.access(s.cur, a, true, site, "map", m)
		}
	}
	return m
}

// Reach records reads (or writes) of everything reachable from v: used at
// json.Marshal / json.Unmarshal calls, which touch scipipe's data reflectively.
func Reach(v any, write bool, site string) {
	s := S
	if s == nil || !s.raceOn() {
		return
	}
	seen := map[uintptr]bool{}
	var walk func(rv reflect.Value, depth int)
	walk = func(rv reflect.Value, depth int) {
		if depth > 12 || !rv.IsValid() {
			return
		}
		switch rv.Kind() {
		case reflect.Ptr:
			if rv.IsNil() || seen[rv.Pointer()] {
				return
			}
			seen[rv.Pointer()] = true
			walk(rv.Elem(), depth+1)
		case reflect.Interface:
			if !rv.IsNil() {
				walk(rv.Elem(), depth+1)
			}
		case reflect.Struct:
			for i := 0; i < rv.NumField(); i++ {
				f := rv.Field(i)
				if rv.Type().Field(i).PkgPath != "" { // unexported: json ignores
					continue
				}
				if f.CanAddr() {
					a := f.UnsafeAddr()
					if len(s.cur.vc) == 0 {
						s.race.tick(s.cur)
					}
					s.race.access(s.cur, a, write, site, "field "+rv.Type().Name()+"."+rv.Type().Field(i).Name, nil)
				}
				walk(f, depth+1)
			}
		case reflect.Map:
			if rv.IsNil() {
				return
			}
			if len(s.cur.vc) == 0 {
				s.race.tick(s.cur)
			}
			s.race.access(s.cur, rv.Pointer(), write, site, "map", rv.Interface())
			if seen[rv.Pointer()] {
				return
			}
			seen[rv.Pointer()] = true
			keys := rv.MapKeys()
			for _, k := range keys {
				walk(rv.MapIndex(k), depth+1)
			}
		case reflect.Slice:
			for i := 0; i < rv.Len(); i++ {
				walk(rv.Index(i), depth+1)
			}
		}
	}
	walk(reflect.ValueOf(v), 0)
}

// WStruct records a write of every field of *p (whole-struct assignment).
func WStruct[T any](p *T, site string) *T {
	s := S
	if s == nil || !s.raceOn() || p == nil {
		return p
	}
	rv := reflect.ValueOf(p).Elem()
	if rv.Kind() != reflect.Struct {
		return W(p, site)
	}
	if len(s.cur.vc) == 0 {
		s.race.tick(s.cur)
	}
	for i := 0; i < rv.NumField(); i++ {
		f := rv.Field(i)
		if f.CanAddr() {
			s.race.access(s.cur, f.UnsafeAddr(), true, site, "field "+rv.Type().Name()+"."+rv.Type().Field(i).Name, p)
		}
	}
	return p
}

func ReachR[T any](v T, site string) T { Reach(v, false, site); return v }
func ReachW[T any](v T, site string) T { Reach(v, true, site); return v }

func (r RaceReport) String() string {
	k := func(w bool) string {
		if w {
			return "write"
		}
		return "read"
	}
	return fmt.Sprintf("DATA RACE on %s: %s at %s / %s at %s", r.Desc, k(r.AWrite), r.A, k(r.BWrite), r.B)
}
