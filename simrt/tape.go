package simrt

// Tape: the single source of every nondeterministic choice of a simulated run.
//
// A tape is a small set of named streams. In record mode a stream draws from
// its own PRNG (seeded from the run seed and the stream id) and appends every
// value it hands out; in replay mode it hands out the stored values and 0
// ("the simplest thing") once they are exhausted. The complete sequence that
// was actually used is always available in Used, so a run is a pure function
// of (code, config, tape).

type StreamID int

const (
	StGen StreamID = iota
	StSched
	StSelect
	StMap
	StDur
	StFault
	StKill
	StAPI // which of several equivalent public API calls the workflow program uses
	NumStreams
)

var StreamNames = [NumStreams]string{"gen", "sched", "select", "map", "dur", "fault", "kill", "api"}

type rng struct{ s [4]uint64 }

func splitmix(x *uint64) uint64 {
	*x += 0x9e3779b97f4a7c15
	z := *x
	z = (z ^ (z >> 30)) * 0xbf58476d1ce4e5b9
	z = (z ^ (z >> 27)) * 0x94d049bb133111eb
	return z ^ (z >> 31)
}

func newRng(seed uint64) *rng {
	r := &rng{}
	x := seed
	for i := range r.s {
		r.s[i] = splitmix(&x)
	}
	return r
}

func rotl(x uint64, k uint) uint64 { return (x << k) | (x >> (64 - k)) }

// xoshiro256**
func (r *rng) next() uint64 {
	res := rotl(r.s[1]*5, 7) * 9
	t := r.s[1] << 17
	r.s[2] ^= r.s[0]
	r.s[3] ^= r.s[1]
	r.s[1] ^= r.s[2]
	r.s[0] ^= r.s[3]
	r.s[2] ^= t
	r.s[3] = rotl(r.s[3], 45)
	return res
}

func (r *rng) intn(n int) int {
	if n <= 1 {
		return 0
	}
	return int(r.next() % uint64(n))
}

// float in [0,1)
func (r *rng) float() float64 { return float64(r.next()>>11) / float64(1<<53) }

type Stream struct {
	In   []uint32 // values to replay
	pos  int
	Used []uint32 // values actually handed out
	rng  *rng
	// NonZero counts handed-out values that were not 0.
	NonZero int
}

type Tape struct {
	Seed    uint64
	Replay  bool
	Streams [NumStreams]*Stream
}

func NewTape(seed uint64) *Tape {
	t := &Tape{Seed: seed}
	for i := range t.Streams {
		t.Streams[i] = &Stream{rng: newRng(seed*1000003 + uint64(i)*7919 + 17)}
	}
	return t
}

// NewReplayTape builds a tape that replays the given streams and reads 0
// beyond their end.
func NewReplayTape(seed uint64, in [NumStreams][]uint32) *Tape {
	t := NewTape(seed)
	t.Replay = true
	for i := range t.Streams {
		t.Streams[i].In = in[i]
	}
	return t
}

// Choose returns a value in [0,n). p0 is the probability with which record
// mode returns 0 outright (bias towards "the simplest thing"); the remaining
// mass is uniform over [0,n).
func (t *Tape) Choose(st StreamID, n int, p0 float64) int {
	s := t.Streams[st]
	if n <= 1 {
		return 0
	}
	var v int
	if s.pos < len(s.In) {
		v = int(s.In[s.pos] % uint32(n))
		s.pos++
	} else if t.Replay {
		v = 0
	} else {
		if p0 > 0 && s.rng.float() < p0 {
			v = 0
		} else {
			v = s.rng.intn(n)
		}
	}
	s.Used = append(s.Used, uint32(v))
	if v != 0 {
		s.NonZero++
	}
	return v
}

// Aux returns a PRNG that is NOT recorded; only for strategy state that in
// turn produces recorded choices (e.g. PCT priorities) in record mode.
func (t *Tape) Aux(st StreamID) *rng { return t.Streams[st].rng }

func (t *Tape) UsedStreams() [NumStreams][]uint32 {
	var out [NumStreams][]uint32
	for i, s := range t.Streams {
		out[i] = append([]uint32(nil), s.Used...)
	}
	return out
}

func (t *Tape) NonZeroTotal() int {
	n := 0
	for _, s := range t.Streams {
		n += s.NonZero
	}
	return n
}
