package simrt

import (
	"fmt"
	"reflect"
	"unsafe"
)

// Simulated channels. scipipe keeps its real `chan T` values (struct fields
// keep their types); the real channel is only an identity and a capacity. All
// state - buffer, wait queues, closed flag - lives here, so the scheduler
// always knows exactly who can proceed. Semantics follow the Go spec.

type selState struct{ fired bool }

type waiter struct {
	g   *G
	val any // value to send (senders)
	sel *selState
	idx int // case index for select waiters
	vc  VC  // sender's clock at enqueue (race build)
}

type chanState struct {
	id     int
	cap    int
	closed bool
	buf    []any
	bufvc  []VC
	recvq  []*waiter
	sendq  []*waiter
	ref    any
	// race build: clocks
	closeVC VC
	recvVCs []VC // clock of the k-th completed receive, kept for the (k+cap)-th send
	nsent   int
	nrecv   int
}

func chanKey[C any](ch C) uintptr {
	return uintptr(*(*unsafe.Pointer)(unsafe.Pointer(&ch)))
}

func (s *Sim) chanOf(key uintptr, capacity int, ref any) *chanState {
	c := s.chans[key]
	if c == nil {
		c = &chanState{id: s.newObj(), cap: capacity, ref: ref}
		s.chans[key] = c
	}
	return c
}

func cast[T any](v any) T {
	if v == nil {
		var z T
		return z
	}
	return v.(T)
}

func (s *Sim) blockForever(what string) {
	s.park(what + " on nil channel")
	// never woken; only poison gets us out
	panic("simrt: woken from nil-channel block")
}

func popWaiter(q *[]*waiter) *waiter {
	for len(*q) > 0 {
		w := (*q)[0]
		*q = (*q)[1:]
		if w.sel != nil {
			if w.sel.fired {
				continue
			}
			w.sel.fired = true
		}
		return w
	}
	return nil
}

func hasWaiter(q []*waiter) bool {
	for _, w := range q {
		if w.sel == nil || !w.sel.fired {
			return true
		}
	}
	return false
}

// --- core operations on chanState (no scheduling inside) --------------------

func (s *Sim) canSend(c *chanState) bool {
	return c.closed || hasWaiter(c.recvq) || len(c.buf) < c.cap
}

func (s *Sim) canRecv(c *chanState) bool {
	return len(c.buf) > 0 || hasWaiter(c.sendq) || c.closed
}

// doSend performs a send that canSend allowed.
func (s *Sim) doSend(c *chanState, v any) {
	if c.closed {
		panic("send on closed channel")
	}
	c.nsent++
	if w := popWaiter(&c.recvq); w != nil {
		w.g.wv, w.g.wok, w.g.widx = v, true, w.idx
		if s.race != nil {
			s.race.handoff(s.cur, w.g)
		}
		c.nrecv++
		s.ready(w.g)
		return
	}
	c.buf = append(c.buf, v)
	if s.race != nil {
		s.race.bufSend(s.cur, c)
	}
}

// doRecv performs a receive that canRecv allowed.
func (s *Sim) doRecv(c *chanState) (any, bool) {
	if len(c.buf) > 0 {
		v := c.buf[0]
		c.buf = c.buf[1:]
		c.nrecv++
		if s.race != nil {
			s.race.bufRecv(s.cur, c)
		}
		if w := popWaiter(&c.sendq); w != nil {
			c.buf = append(c.buf, w.val)
			if s.race != nil {
				s.race.bufSendBlocked(s.cur, w, c)
			}
			w.g.widx = w.idx
			w.g.wpanic = ""
			s.ready(w.g)
		}
		return v, true
	}
	if w := popWaiter(&c.sendq); w != nil {
		c.nrecv++
		if s.race != nil {
			s.race.handoffRecv(s.cur, w)
		}
		w.g.widx = w.idx
		w.g.wpanic = ""
		s.ready(w.g)
		return w.val, true
	}
	if c.closed {
		if s.race != nil {
			s.race.acquire(s.cur, c.closeVC)
		}
		return nil, false
	}
	panic("simrt: doRecv on non-ready channel")
}

// --- public generic API ------------------------------------------------------

func Send[T any](ch chan<- T, v T) {
	s := S
	if ch == nil {
		s.Pre("send", 0, "nil")
		s.blockForever("send")
	}
	c := s.chanOf(chanKey(ch), cap(ch), ch)
	s.Pre("send", c.id, "")
	if s.canSend(c) {
		s.doSend(c, v)
		return
	}
	s.Probe("send-blocked")
	w := &waiter{g: s.cur, val: v}
	if s.race != nil {
		w.vc = s.race.snapshot(s.cur)
	}
	c.sendq = append(c.sendq, w)
	s.cur.wpanic = ""
	s.park(fmt.Sprintf("chan send #%d (%T)", c.id, c.ref))
	if s.cur.wpanic != "" {
		p := s.cur.wpanic
		s.cur.wpanic = ""
		panic(p)
	}
}

func Recv2[T any](ch <-chan T) (T, bool) {
	s := S
	if ch == nil {
		s.Pre("recv", 0, "nil")
		s.blockForever("receive")
	}
	c := s.chanOf(chanKey(ch), cap(ch), ch)
	s.Pre("recv", c.id, "")
	if s.canRecv(c) {
		v, ok := s.doRecv(c)
		return cast[T](v), ok
	}
	w := &waiter{g: s.cur}
	c.recvq = append(c.recvq, w)
	s.park(fmt.Sprintf("chan receive #%d (%T)", c.id, c.ref))
	v, ok := s.cur.wv, s.cur.wok
	s.cur.wv = nil
	return cast[T](v), ok
}

func Recv[T any](ch <-chan T) T {
	v, _ := Recv2(ch)
	return v
}

func Close[T any](ch chan<- T) {
	s := S
	if ch == nil {
		s.check()
		panic("close of nil channel")
	}
	c := s.chanOf(chanKey(ch), cap(ch), ch)
	s.Pre("close", c.id, "")
	if c.closed {
		panic("close of closed channel")
	}
	c.closed = true
	if s.race != nil {
		c.closeVC = s.race.release(s.cur)
	}
	for {
		w := popWaiter(&c.recvq)
		if w == nil {
			break
		}
		w.g.wv, w.g.wok, w.g.widx = nil, false, w.idx
		if s.race != nil {
			s.race.acquire(w.g, c.closeVC)
		}
		s.ready(w.g)
	}
	for {
		w := popWaiter(&c.sendq)
		if w == nil {
			break
		}
		w.g.widx = w.idx
		w.g.wpanic = "send on closed channel"
		s.ready(w.g)
	}
}

func Len[T any](ch <-chan T) int {
	s := S
	if ch == nil {
		return 0
	}
	s.check()
	c := s.chanOf(chanKey(ch), cap(ch), ch)
	return len(c.buf)
}

// --- select -------------------------------------------------------------------

type SelCase struct {
	c    *chanState
	send bool
	val  any
	nilc bool
}

type SelResult struct {
	Index int // -1: default
	val   any
	ok    bool
}

func RecvCase[T any](ch <-chan T) SelCase {
	if ch == nil {
		return SelCase{nilc: true}
	}
	return SelCase{c: S.chanOf(chanKey(ch), cap(ch), ch)}
}

func SendCase[T any](ch chan<- T, v T) SelCase {
	if ch == nil {
		return SelCase{nilc: true, send: true}
	}
	return SelCase{c: S.chanOf(chanKey(ch), cap(ch), ch), send: true, val: v}
}

func SelRecv2[T any](ch <-chan T, r SelResult) (T, bool) { return cast[T](r.val), r.ok }
func SelRecv[T any](ch <-chan T, r SelResult) T          { return cast[T](r.val) }

func Select(hasDefault bool, cases ...SelCase) SelResult {
	s := S
	s.Pre("select", len(cases), "")
	var ready []int
	for i, cs := range cases {
		if cs.nilc {
			continue
		}
		if cs.send && s.canSend(cs.c) || !cs.send && s.canRecv(cs.c) {
			ready = append(ready, i)
		}
	}
	if len(ready) > 0 {
		k := 0
		if len(ready) > 1 {
			s.Probe("select-multi-ready")
			k = s.Tape.Choose(StSelect, len(ready), 0.5)
			if k != 0 {
				s.Fault("select-pick")
			}
		}
		i := ready[k]
		cs := cases[i]
		s.ev("select-case", i, "")
		if cs.send {
			s.doSend(cs.c, cs.val)
			return SelResult{Index: i}
		}
		v, ok := s.doRecv(cs.c)
		return SelResult{Index: i, val: v, ok: ok}
	}
	if hasDefault {
		return SelResult{Index: -1}
	}
	sel := &selState{}
	n := 0
	desc := "select on"
	for i, cs := range cases {
		if cs.nilc {
			continue
		}
		n++
		w := &waiter{g: s.cur, sel: sel, idx: i, val: cs.val}
		if cs.send {
			if s.race != nil {
				w.vc = s.race.snapshot(s.cur)
			}
			cs.c.sendq = append(cs.c.sendq, w)
			desc += fmt.Sprintf(" send#%d", cs.c.id)
		} else {
			cs.c.recvq = append(cs.c.recvq, w)
			desc += fmt.Sprintf(" recv#%d", cs.c.id)
		}
	}
	if n == 0 {
		s.blockForever("select")
	}
	s.cur.wpanic = ""
	s.park(desc)
	g := s.cur
	if g.wpanic != "" {
		p := g.wpanic
		g.wpanic = ""
		panic(p)
	}
	i := g.widx
	s.ev("select-case", i, "woken")
	if cases[i].send {
		return SelResult{Index: i}
	}
	v, ok := g.wv, g.wok
	g.wv = nil
	return SelResult{Index: i, val: v, ok: ok}
}

// InjectSend delivers a value into a channel from scheduler context (timer
// callbacks: time.After, Timer, Ticker). Never blocks: the value is dropped
// if neither a receiver waits nor buffer space is left (as Go's timers do).
func InjectSend[T any](s *Sim, ch chan T, v T) {
	c := s.chanOf(chanKey(ch), cap(ch), ch)
	if c.closed {
		return
	}
	if w := popWaiter(&c.recvq); w != nil {
		w.g.wv, w.g.wok, w.g.widx = v, true, w.idx
		c.nsent++
		c.nrecv++
		s.ready(w.g)
		return
	}
	if len(c.buf) < c.cap {
		c.buf = append(c.buf, v)
		c.nsent++
		if s.race != nil {
			c.bufvc = append(c.bufvc, nil)
		}
	}
}

// ReflectSelect is reflect.Select on simulated channels.
func ReflectSelect(cases []reflect.SelectCase) (int, reflect.Value, bool) {
	var sc []SelCase
	var orig []int
	hasDefault := false
	defIdx := -1
	for i, c := range cases {
		switch c.Dir {
		case reflect.SelectDefault:
			hasDefault = true
			defIdx = i
			continue
		case reflect.SelectRecv:
			if !c.Chan.IsValid() || c.Chan.IsNil() {
				sc = append(sc, SelCase{nilc: true})
			} else {
				sc = append(sc, SelCase{c: S.chanOf(c.Chan.Pointer(), c.Chan.Cap(), c.Chan.Interface())})
			}
		case reflect.SelectSend:
			if !c.Chan.IsValid() || c.Chan.IsNil() {
				sc = append(sc, SelCase{nilc: true, send: true})
			} else {
				sc = append(sc, SelCase{c: S.chanOf(c.Chan.Pointer(), c.Chan.Cap(), c.Chan.Interface()), send: true, val: c.Send.Interface()})
			}
		default:
			panic("reflect.Select: invalid Dir")
		}
		orig = append(orig, i)
	}
	r := Select(hasDefault, sc...)
	if r.Index < 0 {
		return defIdx, reflect.Value{}, false
	}
	i := orig[r.Index]
	if cases[i].Dir == reflect.SelectSend {
		return i, reflect.Value{}, false
	}
	et := cases[i].Chan.Type().Elem()
	if !r.ok || r.val == nil {
		return i, reflect.Zero(et), r.ok
	}
	v := reflect.New(et).Elem()
	v.Set(reflect.ValueOf(r.val))
	return i, v, true
}
