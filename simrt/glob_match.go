package simrt

import "path/filepath"

var errBadPattern = filepath.ErrBadPattern

// pathMatch is the pure pattern matcher of the standard library.
func pathMatch(pattern, name string) (bool, error) { return filepath.Match(pattern, name) }
