package simrt

import (
	"errors"
	"io"
	"crypto/sha1"
	"encoding/hex"
	"fmt"
	"sort"
	"strconv"
	"strings"
	"syscall"
)

// Mini shell standing in for `bash -c` and the workload command `op`
// (DESIGN.md A.4). Commands run as micro-steps inside the calling simulated
// goroutine; every micro-step is a scheduling point and a possible kill
// point, so other goroutines interleave with a "running" command exactly as
// they would with an external process.

type ExitError struct {
	Code   int
	Signal string
}

func (e *ExitError) Error() string {
	if e.Signal != "" {
		return "signal: " + e.Signal
	}
	return "exit status " + strconv.Itoa(e.Code)
}

type FailMode int

const (
	FailNone        FailMode = iota
	FailExitBefore           // non-zero exit before writing anything
	FailExitPartial          // non-zero exit after writing part of an output
	FailExitAfter            // non-zero exit after writing every output completely
	FailSignal               // killed by a signal at a micro-step
	FailOmit                 // exit 0 without producing one declared output
	FailDangling             // exit 0 leaving a dangling symbolic link where one declared output should be
	NumFailModes
)

func (m FailMode) String() string {
	return [...]string{"none", "cmd-exit-before", "cmd-exit-partial", "cmd-exit-after", "cmd-signal", "cmd-omit", "cmd-dangling-link"}[m]
}

type OpInst struct {
	Seq       int
	Name      string
	Key       string
	Argv      []string
	Launcher  []string // launcher words (nice -n 10, env, ...) the shell received in front of Argv
	Cwd       string
	Inputs    []string // as written on the command line, in order (incl. joined members)
	InAbs     []string
	Joined    []string // members of -j lists, in order
	Params    []string // k=v, in command-line order
	Outputs   []string
	Extras    []string
	PadTo     int
	Barrier   int
	BGroup    string
	StartAbs  int64    // simulated wall clock (unix ns, no granularity) when the command started / ended
	EndAbs    int64
	Say       int      // -say N: print N bytes without a newline on standard output
	Head      int      // -head N: read only the first N bytes of each input, then close it
	TouchIn   bool     // -touchin: the command re-writes its first input in place (same bytes, new mtime), like sort -o / an index update
	BgLate    bool     // -bglate: the first output is created only AFTER the command returned (by a child that outlives it)
	BgActive  bool     // a background child of this command is still working
	BgTail    bool     // -bg: the last part of the first output is written by a child that outlives the command
	Notes     []string // -note words: recorded, no influence on the result
	StartStep int
	StartNS   int64
	EndStep   int
	EndNS     int64
	Running   bool
	Code      int
	Signal    string
	// behaviour, filled in by Shell.Plan
	DurNS   int64
	Chunks  int
	Fail    FailMode
	FailArg int
	InData  [][]byte
	Script  string // the complete `bash -c` script this command was part of
	Written map[string]bool
}

type TraceEvent struct {
	Step int
	NS   int64
	Kind string // start | exit
	Seq  int
	Name string
	Key  string
	Code int
	Cwd  string
	Argv []string
	JSeq int // length of the fs journal at this event
}

type Shell struct {
	s        *Sim
	Insts    []*OpInst
	Trace    []TraceEvent
	Plan     func(o *OpInst)
	nextDelay int64
	// Scripts: every `bash -c` script the program started, in order (the
	// library's own housekeeping - mkfifo, rm of a FIFO - included)
	Scripts []string
	barrier  map[int][]*G
	barrierN map[int]int
	bgroup   map[string][]*G
	// Custom tasks (Go functions) report themselves here too
}

func newShell(s *Sim) *Shell {
	return &Shell{s: s, barrier: map[int][]*G{}, barrierN: map[int]int{}, bgroup: map[string][]*G{}}
}

// Running returns the op instances that are between start and exit.
func (sh *Shell) Running() []*OpInst {
	var r []*OpInst
	for _, o := range sh.Insts {
		if o.Running || o.BgActive {
			r = append(r, o)
		}
	}
	return r
}

func Digest(b []byte) string {
	h := sha1.Sum(b)
	return hex.EncodeToString(h[:])[:12]
}

// OpContent is the function every `op` output is computed with; the reference
// model calls the same function on its own evaluation of the graph.
func OpContent(name string, inputs [][]byte, params []string, outIdx int, padTo int) []byte {
	if padTo < 0 {
		return []byte{} // (-n -1: the command legitimately produces empty outputs)
	}
	ds := make([]string, len(inputs))
	for i, b := range inputs {
		ds[i] = Digest(b)
	}
	ps := append([]string(nil), params...)
	sort.Strings(ps)
	line := fmt.Sprintf("%s(%s;%s)#%d\n", name, strings.Join(ds, ","), strings.Join(ps, ","), outIdx)
	b := []byte(line)
	for i := len(b); i < padTo; i++ {
		if (i+1)%64 == 0 || i == padTo-1 {
			b = append(b, '\n')
		} else {
			b = append(b, byte('a'+(i*31+len(line))%26))
		}
	}
	return b
}

// TaskKey identifies a task execution independent of timing: process name,
// input paths relative to the working directory (order as given), parameters.
func TaskKey(name string, inputs []string, params []string) string {
	ps := append([]string(nil), params...)
	sort.Strings(ps)
	return name + "|" + strings.Join(inputs, ",") + "|" + strings.Join(ps, ",")
}

// --- tokeniser -----------------------------------------------------------------

type token struct {
	s  string
	op bool
}

func tokenize(src string) ([]token, error) {
	var toks []token
	i := 0
	for i < len(src) {
		c := src[i]
		switch {
		case c == ' ' || c == '\t':
			i++
		case c == '\n':
			toks = append(toks, token{";", true})
			i++
		case c == '#' && (i == 0 || src[i-1] == ' '):
			return toks, nil
		case c == '&' && i+1 < len(src) && src[i+1] == '&':
			toks = append(toks, token{"&&", true})
			i += 2
		case c == ';':
			toks = append(toks, token{";", true})
			i++
		case c == '>' && i+1 < len(src) && src[i+1] == '>':
			toks = append(toks, token{">>", true})
			i += 2
		case c == '>':
			toks = append(toks, token{">", true})
			i++
		case c == '|' && i+1 < len(src) && src[i+1] == '|':
			toks = append(toks, token{"||", true})
			i += 2
		case c == '|':
			toks = append(toks, token{"|", true})
			i++
		case c == '|' || c == '<' || c == '&' || c == '$' || c == '`' || c == '(' || c == ')':
			return nil, fmt.Errorf("unsupported shell syntax %q in %q", string(c), src)
		default:
			var b strings.Builder
			for i < len(src) {
				c := src[i]
				if c == ' ' || c == '\t' || c == '\n' || c == ';' || c == '>' || c == '&' || c == '|' || c == '<' {
					break
				}
				if c == '\'' || c == '"' {
					j := strings.IndexByte(src[i+1:], c)
					if j < 0 {
						return nil, fmt.Errorf("unterminated quote in %q", src)
					}
					b.WriteString(src[i+1 : i+1+j])
					i += j + 2
					continue
				}
				b.WriteByte(c)
				i++
			}
			toks = append(toks, token{b.String(), false})
		}
	}
	return toks, nil
}

type shellRun struct {
	sh     *Shell
	cwd    string
	out    []byte
	script string
	// `set -e` / `set -o pipefail`
	errexit, pipefail bool
	launcher          []string // launcher words stripped from the current simple command
	exited            bool     // `exit` was executed
	waitDelayNS       int64
	delayed           bool
	children          WaitGroup // background children that inherited the script's stdout/stderr
}

// Exec runs a `bash -c` script. It returns combined output and an error for a
// non-zero status or signal death.
func (sh *Shell) Exec(script string) ([]byte, error) { return sh.ExecMode(script, true) }

// ExecMode: waitChildren says whether the caller collects the output through
// a pipe (CombinedOutput, Output, or Stdout/Stderr set to a non-file writer):
// it then only returns when every child holding the write end has exited. A
// caller that hands the script a plain file (or nothing) as stdout/stderr
// returns as soon as the shell itself exits.
// ErrWaitDelay: the shell has exited but children that hold its output pipe
// were still running when Cmd.WaitDelay expired (os/exec.ErrWaitDelay).
var ErrWaitDelay = errors.New("exec: WaitDelay expired before I/O complete")

// ExecDelay is ExecMode(script, true) with os/exec's WaitDelay: children that
// inherited the output pipe are waited for at most delayNS after the shell exited.
func (sh *Shell) ExecDelay(script string, delayNS int64) ([]byte, error) {
	sh.nextDelay = delayNS
	return sh.ExecMode(script, true)
}

func (r *shellRun) waitKids() {
	if r.waitDelayNS <= 0 {
		r.children.Wait()
		return
	}
	if r.children.Pending() > 0 {
		r.sh.s.SleepNS(r.waitDelayNS)
		if r.children.Pending() > 0 {
			r.delayed = true
		}
	}
}

func (sh *Shell) ExecMode(script string, waitChildren bool) ([]byte, error) {
	s := sh.s
	s.Pre("exec", 0, script)
	sh.Scripts = append(sh.Scripts, script)
	toks, err := tokenize(script)
	if err != nil {
		s.HarnessFail(err.Error())
	}
	r := &shellRun{sh: sh, cwd: s.FS.Cwd, script: script, waitDelayNS: sh.nextDelay}
	sh.nextDelay = 0
	status := 0
	signal := ""
	i := 0
	skip := false
	pipeStatus := 0 // rightmost non-zero status of the earlier stages of the current pipeline
	for i < len(toks) {
		// collect one simple command
		var words []string
		redir, redirTo := "", ""
		for i < len(toks) && !(toks[i].op && (toks[i].s == "&&" || toks[i].s == "||" || toks[i].s == ";" || toks[i].s == "|")) {
			if toks[i].op {
				if i+1 >= len(toks) || toks[i+1].op {
					s.HarnessFail("bad redirection in: " + script)
				}
				redir, redirTo = toks[i].s, toks[i+1].s
				i += 2
				continue
			}
			words = append(words, toks[i].s)
			i++
		}
		stageStart := len(r.out)
		if !skip && len(words) > 0 {
			status, signal = r.simple(words, redir, redirTo)
			if signal != "" {
				if waitChildren {
					r.waitKids()
				}
				return r.out, &ExitError{Code: -1, Signal: signal}
			}
			if r.exited {
				if waitChildren {
					r.waitKids()
				}
				if status != 0 {
					return r.out, &ExitError{Code: status}
				}
				return r.out, nil
			}
			lastStage := i >= len(toks) || toks[i].s != "|"
			if lastStage {
				if r.pipefail && status == 0 && pipeStatus != 0 {
					status = pipeStatus
				}
				pipeStatus = 0
			} else if status != 0 {
				pipeStatus = status
			}
			// errexit: a failing command ends the shell unless it is a non-final
			// element of an && list (bash: "part of any command executed in a && or
			// || list except the command following the final && or ||")
			if r.errexit && lastStage && status != 0 && (i >= len(toks) || toks[i].s == ";") {
				if waitChildren {
					r.waitKids()
				}
				return r.out, &ExitError{Code: status}
			}
		}
		if i < len(toks) {
			switch toks[i].s {
			case "&&":
				skip = status != 0
			case "||":
				skip = status == 0
			case "|":
				// pipeline: every stage runs, the status is that of the last
				// stage (bash without pipefail). Only stages that neither read
				// stdin nor matter for stdout are used by the workloads. What the
				// stage printed went into the pipe, not to the script's output.
				if stageStart <= len(r.out) {
					r.out = r.out[:stageStart]
				}
			default:
				skip = false
			}
			i++
		}
	}
	if waitChildren {
		r.waitKids()
	}
	if status != 0 {
		return r.out, &ExitError{Code: status}
	}
	if r.delayed {
		return r.out, ErrWaitDelay
	}
	return r.out, nil
}

func (r *shellRun) errf(format string, a ...any) {
	r.out = append(r.out, []byte(fmt.Sprintf(format, a...)+"\n")...)
}

func (r *shellRun) simple(w []string, redir, redirTo string) (int, string) {
	s := r.sh.s
	fs := s.FS
	var stdout []byte
	status := 0
	signal := ""
	// launcher words in front of a command (scipipe's Prepend): run the rest
	full := w
	for len(w) > 1 {
		switch w[0] {
		case "nice":
			w = w[1:]
			if len(w) > 1 && w[0] == "-n" {
				w = w[2:]
			}
			continue
		case "env", "time", "nohup":
			w = w[1:]
			continue
		}
		break
	}
	r.launcher = append([]string(nil), full[:len(full)-len(w)]...)
	switch w[0] {
	case "cd":
		if len(w) < 2 {
			r.cwd = fs.Cwd
			return 0, ""
		}
		n, err := fs.Lookup(r.cwd, w[1])
		if err != nil || n.Kind != KDir {
			r.errf("bash: cd: %s: No such file or directory", w[1])
			return 1, ""
		}
		_, _, _, abs, _ := fs.walk(r.cwd, w[1])
		r.cwd = abs
		return 0, ""
	case "set":
		for k := 1; k < len(w); k++ {
			a := w[k]
			switch {
			case a == "-o" || a == "+o":
				if k+1 < len(w) {
					k++
					switch w[k] {
					case "pipefail":
						r.pipefail = a == "-o"
					case "errexit":
						r.errexit = a == "-o"
					case "nounset":
					default:
						s.HarnessFail("mini-shell: unknown set -o option " + w[k])
					}
				}
			case strings.HasPrefix(a, "-") || strings.HasPrefix(a, "+"):
				for _, f := range a[1:] {
					switch f {
					case 'e':
						r.errexit = a[0] == '-'
					case 'u', 'x':
					case 'o':
						if k+1 < len(w) {
							k++
							if w[k] == "pipefail" {
								r.pipefail = a[0] == '-'
							}
						}
					default:
						s.HarnessFail("mini-shell: unknown set flag " + a)
					}
				}
			}
		}
	case "test":
		a := w[1:]
		neg := false
		if len(a) > 0 && a[0] == "!" {
			neg, a = true, a[1:]
		}
		if len(a) != 2 || (a[0] != "-e" && a[0] != "-f" && a[0] != "-d" && a[0] != "-s") {
			s.HarnessFail("mini-shell: unsupported test expression: " + strings.Join(w, " "))
		}
		n, err := fs.Lookup(r.cwd, a[1])
		ok := err == nil
		switch {
		case ok && a[0] == "-f":
			ok = n.Kind == KFile
		case ok && a[0] == "-d":
			ok = n.Kind == KDir
		case ok && a[0] == "-s":
			ok = n.Kind == KFile && len(n.Data) > 0
		}
		if ok == neg {
			status = 1
		}
	case "true", ":":
	case "false":
		status = 1
	case "exit":
		code := 0
		if len(w) > 1 {
			code, _ = strconv.Atoi(w[1])
		}
		r.exited = true // the shell ends here, whatever follows
		return code, ""
	case "echo":
		stdout = []byte(strings.Join(w[1:], " ") + "\n")
	case "cat":
		for _, p := range w[1:] {
			s.Pre("sh-cat", 0, p)
			n, err := fs.Lookup(r.cwd, p)
			if err != nil || n.Kind == KDir {
				r.errf("cat: %s: No such file or directory", p)
				status = 1
				continue
			}
			if n.Kind == KFifo {
				data, _ := r.sh.readFifo(n, p)
				stdout = append(stdout, data...)
				continue
			}
			stdout = append(stdout, n.Data...)
		}
	case "mkfifo":
		for _, p := range w[1:] {
			s.Pre("sh-mkfifo", 0, p)
			if err := fs.Mkfifo(r.cwd, p); err != nil {
				r.errf("mkfifo: cannot create fifo '%s': %v", p, err)
				status = 1
			}
		}
	case "rm":
		force, rec := false, false
		for _, p := range w[1:] {
			if strings.HasPrefix(p, "-") {
				force = force || strings.Contains(p, "f")
				rec = rec || strings.Contains(p, "r")
				continue
			}
			s.Pre("sh-rm", 0, p)
			var err error
			if rec {
				err = fs.RemoveAll(r.cwd, p)
			} else {
				err = fs.Remove(r.cwd, p)
			}
			if err != nil && !force {
				r.errf("rm: cannot remove '%s': %v", p, err)
				status = 1
			}
		}
	case "mkdir":
		for _, p := range w[1:] {
			if p == "-p" {
				continue
			}
			s.Pre("sh-mkdir", 0, p)
			if err := fs.MkdirAll(r.cwd, p); err != nil {
				status = 1
			}
		}
	case "sleep":
		d := 1.0
		if len(w) > 1 {
			d, _ = strconv.ParseFloat(w[1], 64)
		}
		s.SleepNS(int64(d * 1e9))
	case "op":
		status, signal = r.sh.runOp(r, w)
	default:
		s.HarnessFail("mini-shell: unknown command " + w[0])
	}
	if redir != "" {
		s.Pre("sh-redirect", 0, redirTo)
		n, err := fs.Lookup(r.cwd, redirTo)
		if err == nil && n.Kind == KFifo {
			if sig := r.sh.writeFifo(n, redirTo, stdout, 1); sig != "" {
				return 141, ""
			}
			return status, signal
		}
		var abs string
		if redir == ">" || err != nil {
			n, abs, err = fs.Create(r.cwd, redirTo)
			if err != nil {
				r.errf("bash: %s: %v", redirTo, err)
				return 1, ""
			}
		} else {
			_, _, _, abs, _ = fs.walk(r.cwd, redirTo)
		}
		if len(stdout) > 0 {
			s.Pre("sh-write", 0, redirTo)
			if redir == ">>" {
				fs.AppendData(n, abs, stdout)
			} else {
				fs.WriteAt(n, abs, 0, stdout)
			}
		}
	} else {
		r.out = append(r.out, stdout...)
	}
	return status, signal
}

// --- FIFOs ------------------------------------------------------------------------

type pipe struct {
	buf     []byte
	readers int
	writers int
	ropens  int
	wopens  int
	waiters []*G
}

func (sh *Shell) pipeOf(n *Inode) *pipe {
	if n.pipe == nil {
		n.pipe = &pipe{}
	}
	return n.pipe
}

func (sh *Shell) wakePipe(p *pipe) {
	for _, g := range p.waiters {
		sh.s.ready(g)
	}
	p.waiters = nil
}

func (sh *Shell) waitPipe(p *pipe, desc string) {
	p.waiters = append(p.waiters, sh.s.cur)
	sh.s.park(desc)
}

func (sh *Shell) openFifoRead(n *Inode, path string) {
	s := sh.s
	p := sh.pipeOf(n)
	s.Pre("fifo-open-r", n.Ino, path)
	p.readers++
	p.ropens++
	w0 := p.wopens
	sh.wakePipe(p)
	for p.writers == 0 && p.wopens == w0 {
		s.Probe("fifo-open-blocked")
		s.Fault("open-block")
		sh.waitPipe(p, "open(O_RDONLY) of fifo "+path)
	}
}

func (sh *Shell) openFifoWrite(n *Inode, path string) {
	s := sh.s
	p := sh.pipeOf(n)
	s.Pre("fifo-open-w", n.Ino, path)
	p.writers++
	p.wopens++
	r0 := p.ropens
	sh.wakePipe(p)
	for p.readers == 0 && p.ropens == r0 {
		s.Probe("fifo-open-blocked")
		s.Fault("open-block")
		sh.waitPipe(p, "open(O_WRONLY) of fifo "+path)
	}
}

// readFifo: open, read until EOF, close.
func (sh *Shell) readFifo(n *Inode, path string) ([]byte, bool) {
	return sh.readFifoN(n, path, 0)
}

// readFifoN: like readFifo, but with limit > 0 the reader closes the FIFO as
// soon as it has limit bytes (head -c): what is still in the pipe is
// discarded, and a writer that has more to write gets EPIPE / SIGPIPE.
func (sh *Shell) readFifoN(n *Inode, path string, limit int) ([]byte, bool) {
	s := sh.s
	p := sh.pipeOf(n)
	sh.openFifoRead(n, path)
	var data []byte
	for {
		s.Pre("fifo-read", n.Ino, path)
		if limit > 0 && len(data) >= limit {
			s.Probe("fifo-reader-closes-early")
			break
		}
		if len(p.buf) > 0 {
			k := len(p.buf)
			if limit > 0 && k > limit-len(data) {
				k = limit - len(data)
			}
			data = append(data, p.buf[:k]...)
			p.buf = p.buf[k:]
			sh.wakePipe(p)
			continue
		}
		if p.writers == 0 {
			break
		}
		sh.waitPipe(p, "read of fifo "+path)
	}
	p.readers--
	sh.wakePipe(p)
	return data, true
}

// readOpenFifo / writeOpenFifo / closeOpenFifo: the single calls of a FIFO end
// that Go code holds open (os.Open + Read + Close).
func (sh *Shell) readOpenFifo(n *Inode, path string, b []byte) (int, error) {
	s := sh.s
	p := sh.pipeOf(n)
	for {
		s.Pre("fifo-read", n.Ino, path)
		if len(p.buf) > 0 {
			k := copy(b, p.buf)
			p.buf = p.buf[k:]
			sh.wakePipe(p)
			return k, nil
		}
		if p.writers == 0 {
			return 0, io.EOF
		}
		sh.waitPipe(p, "read of fifo "+path)
	}
}

func (sh *Shell) writeOpenFifo(n *Inode, path string, data []byte) bool {
	s := sh.s
	p := sh.pipeOf(n)
	for off := 0; off < len(data); {
		s.Pre("fifo-write", n.Ino, path)
		if p.readers == 0 {
			return false
		}
		room := s.Cfg.PipeCap - len(p.buf)
		if room <= 0 {
			s.Probe("pipe-full")
			sh.waitPipe(p, "write to full fifo "+path)
			continue
		}
		k := len(data) - off
		if k > room {
			k = room
		}
		p.buf = append(p.buf, data[off:off+k]...)
		off += k
		sh.wakePipe(p)
	}
	return true
}

func (sh *Shell) closeOpenFifo(n *Inode, path string, writeEnd bool) {
	p := sh.pipeOf(n)
	sh.s.Pre("fifo-close", n.Ino, path)
	if writeEnd {
		p.writers--
	} else {
		p.readers--
	}
	sh.wakePipe(p)
}

// writeFifo: open, write in chunks (blocking while the pipe is full), close.
// Returns "broken pipe" if the reader went away.
func (sh *Shell) writeFifo(n *Inode, path string, data []byte, chunks int) string {
	s := sh.s
	p := sh.pipeOf(n)
	sh.openFifoWrite(n, path)
	capacity := s.Cfg.PipeCap
	if chunks < 1 {
		chunks = 1
	}
	chunk := (len(data) + chunks - 1) / chunks
	if chunk == 0 {
		chunk = 1
	}
	off := 0
	for off < len(data) {
		s.Pre("fifo-write", n.Ino, path)
		if p.readers == 0 {
			p.writers--
			sh.wakePipe(p)
			return "broken pipe"
		}
		room := capacity - len(p.buf)
		if room <= 0 {
			s.Probe("pipe-full")
			s.Fault("pipe-full")
			sh.waitPipe(p, "write to full fifo "+path)
			continue
		}
		n := chunk
		if n > room {
			n = room
		}
		if off+n > len(data) {
			n = len(data) - off
		}
		p.buf = append(p.buf, data[off:off+n]...)
		off += n
		sh.wakePipe(p)
	}
	s.Pre("fifo-close-w", n.Ino, path)
	p.writers--
	sh.wakePipe(p)
	return ""
}

// --- op -------------------------------------------------------------------------

func relToWork(abs string) string {
	return strings.TrimPrefix(abs, "/work/")
}

func (sh *Shell) parseOp(r *shellRun, w []string) *OpInst {
	s := sh.s
	o := &OpInst{Seq: len(sh.Insts), Argv: append([]string(nil), w...), Launcher: r.launcher, Cwd: r.cwd, Chunks: 1, Written: map[string]bool{}}
	if len(w) < 2 {
		s.HarnessFail("op: missing name")
	}
	o.Name = w[1]
	sep := " "
	i := 2
	need := func() string {
		i++
		if i >= len(w) {
			s.HarnessFail("op: missing argument in " + strings.Join(w, " "))
		}
		return w[i]
	}
	for ; i < len(w); i++ {
		if strings.HasPrefix(w[i], "-i=") {
			o.Inputs = append(o.Inputs, w[i][3:])
			continue
		}
		switch w[i] {
		case "-i":
			o.Inputs = append(o.Inputs, need())
		case "-sep":
			sep = need()
		case "-j":
			for i+1 < len(w) && !strings.HasPrefix(w[i+1], "-") {
				i++
				for _, m := range strings.Split(w[i], sep) {
					if m != "" {
						o.Inputs = append(o.Inputs, m)
						o.Joined = append(o.Joined, m)
					}
				}
			}
		case "-p":
			o.Params = append(o.Params, need())
		case "-o":
			o.Outputs = append(o.Outputs, need())
		case "-x":
			o.Extras = append(o.Extras, need())
		case "-n":
			o.PadTo, _ = strconv.Atoi(need())
		case "-barrier":
			o.Barrier, _ = strconv.Atoi(need())
		case "-bgroup":
			o.BGroup = need()
		case "-bg":
			o.BgTail = true
		case "-bglate":
			o.BgLate = true
		case "-touchin":
			o.TouchIn = true
		case "-head":
			o.Head, _ = strconv.Atoi(need())
		case "-say":
			o.Say, _ = strconv.Atoi(need())
		case "-note":
			// (the word may be empty and vanish: empty sub-stream)
			if i+1 < len(w) && !strings.HasPrefix(w[i+1], "-") {
				i++
				o.Notes = append(o.Notes, w[i])
			}
		default:
			s.HarnessFail("op: unknown flag " + w[i] + " in " + strings.Join(w, " "))
		}
	}
	var rel []string
	for _, p := range o.Inputs {
		_, _, _, abs, e := s.FS.walk(r.cwd, p)
		if e != 0 {
			abs = p
		}
		o.InAbs = append(o.InAbs, abs)
		rel = append(rel, relToWork(strings.TrimSuffix(abs, ".fifo")))
	}
	o.Key = TaskKey(o.Name, rel, o.Params)
	return o
}

func (sh *Shell) traceEv(kind string, o *OpInst) {
	s := sh.s
	sh.Trace = append(sh.Trace, TraceEvent{Step: s.Steps, NS: s.now, Kind: kind, Seq: o.Seq, Name: o.Name, Key: o.Key, Code: o.Code, Cwd: o.Cwd, Argv: o.Argv, JSeq: len(s.FS.Journal)})
	s.ev("op-"+kind, o.Seq, o.Key)
}

func (sh *Shell) finish(o *OpInst, code int, signal string) (int, string) {
	o.Running = false
	o.Code = code
	o.Signal = signal
	o.EndStep = sh.s.Steps
	o.EndNS = sh.s.now
	o.EndAbs = sh.s.Cfg.Epoch + sh.s.now
	if signal != "" {
		o.Code = -1
	}
	sh.traceEv("exit", o)
	return code, signal
}

func (sh *Shell) runOp(r *shellRun, w []string) (int, string) {
	s := sh.s
	fs := s.FS
	o := sh.parseOp(r, w)
	o.Script = r.script
	if sh.Plan != nil {
		sh.Plan(o)
	}
	if o.Chunks < 1 {
		o.Chunks = 1
	}
	for _, other := range sh.Insts {
		if other.Running && other.Cwd == o.Cwd && strings.Contains(o.Cwd, "_scipipe_tmp") {
			s.InvViol = append(s.InvViol, fmt.Sprintf("step %d: commands of two tasks run in the same temp directory %s at the same time: %s and %s", s.Steps, o.Cwd, other.Key, o.Key))
		}
	}
	sh.Insts = append(sh.Insts, o)
	o.Running = true
	o.StartStep = s.Steps
	o.StartNS = s.now
	o.StartAbs = s.Cfg.Epoch + s.now
	sh.traceEv("start", o)
	if o.Fail != FailNone {
		s.Fault(o.Fail.String())
	}
	micro := 0
	sigAt := -1
	if o.Fail == FailSignal {
		sigAt = o.FailArg
	}
	// step returns true if the command is to die by signal at this micro-step
	step := func(kind, detail string) bool {
		s.Pre("op-"+kind, o.Seq, detail)
		micro++
		return sigAt >= 0 && micro > sigAt
	}
	if o.Fail == FailExitBefore {
		if step("early-exit", "") {
			return sh.finish(o, -1, "killed")
		}
		r.errf("op %s: injected failure before writing", o.Name)
		return sh.finish(o, 1, "")
	}
	// barrier: wait until K instances of the same barrier size are inside
	if o.Barrier > 1 {
		k := o.Barrier
		sh.barrierN[k]++
		if sh.barrierN[k] >= k {
			s.Probe("barrier-released")
			for _, g := range sh.barrier[k] {
				s.ready(g)
			}
			sh.barrier[k] = nil
			sh.barrierN[k] -= k
		} else {
			sh.barrier[k] = append(sh.barrier[k], s.cur)
			s.park(fmt.Sprintf("op %s: barrier of %d", o.Name, k))
		}
	}
	// named rendezvous: the two commands of a group whose name starts with "g"
	// wait for each other
	if strings.HasPrefix(o.BGroup, "g") {
		if w := sh.bgroup[o.BGroup]; len(w) > 0 {
			s.Probe("barrier-released")
			s.ready(w[0])
			sh.bgroup[o.BGroup] = nil
		} else {
			sh.bgroup[o.BGroup] = []*G{s.cur}
			s.park(fmt.Sprintf("op %s: rendezvous group %s", o.Name, o.BGroup))
		}
	}
	// read inputs
	for idx, p := range o.Inputs {
		if step("open-in", p) {
			return sh.finish(o, -1, "killed")
		}
		n, err := fs.Lookup(r.cwd, p)
		if err != nil || n.Kind == KDir {
			r.errf("op %s: cannot open input %s: No such file or directory", o.Name, p)
			return sh.finish(o, 1, "")
		}
		if n.Kind == KFifo {
			data, _ := sh.readFifoN(n, p, o.Head)
			o.InData = append(o.InData, data)
		} else if o.Head > 0 && len(n.Data) > o.Head {
			o.InData = append(o.InData, n.Data[:o.Head])
		} else {
			o.InData = append(o.InData, n.Data)
		}
		_ = idx
	}
	if o.Say > 0 {
		// (a progress bar: carriage returns, never a newline)
		r.out = append(r.out, []byte(strings.Repeat("#", o.Say))...)
	}
	// work
	if o.DurNS > 0 {
		s.Fault("slow")
	}
	s.SleepNS(o.DurNS)
	micro++
	if sigAt >= 0 && micro > sigAt {
		return sh.finish(o, -1, "killed")
	}
	// write outputs
	if o.TouchIn && len(o.Inputs) > 0 {
		if n, err := fs.Lookup(r.cwd, o.Inputs[0]); err == nil && n.Kind == KFile {
			if step("touch-in", o.Inputs[0]) {
				return sh.finish(o, -1, "killed")
			}
			_, _, _, abs, _ := fs.walk(r.cwd, o.Inputs[0])
			fs.WriteAt(n, abs, 0, append([]byte(nil), n.Data...))
		}
	}
	omit := -1
	if o.Fail == FailOmit && len(o.Outputs) > 0 {
		omit = o.FailArg % len(o.Outputs)
	}
	dangling := -1
	if o.Fail == FailDangling && len(o.Outputs) > 0 {
		dangling = o.FailArg % len(o.Outputs)
	}
	for idx, p := range o.Outputs {
		if idx == omit {
			continue
		}
		if idx == dangling {
			// (cp from a place that does not exist failed quietly; ln -s made the link)
			if step("symlink-out", p) {
				return sh.finish(o, -1, "killed")
			}
			if n, lerr := fs.Lookup(r.cwd, p); lerr != nil || n.Kind != KFifo {
				fs.Symlink(r.cwd, p, p+".scratch")
				continue
			}
		}
		data := OpContent(o.Name, o.InData, o.Params, idx, o.PadTo)
		if step("create-out", p) {
			return sh.finish(o, -1, "killed")
		}
		n, lerr := fs.Lookup(r.cwd, p)
		if lerr == nil && n.Kind == KFifo {
			partialFifo := o.Fail == FailExitPartial && idx == o.FailArg%len(o.Outputs)
			if partialFifo {
				data = data[:len(data)/2]
			}
			if sig := sh.writeFifo(n, p, data, o.Chunks); sig != "" {
				// the command dies of SIGPIPE; the bash that ran it lives on and
				// reports 128+13
				s.Fault("broken-pipe")
				r.errf("op %s: %s: Broken pipe", o.Name, p)
				return sh.finish(o, 141, "")
			}
			if partialFifo {
				r.errf("op %s: injected failure after partial write to %s", o.Name, p)
				return sh.finish(o, 1, "")
			}
			o.Written[p] = true
			continue
		}
		n, abs, err := fs.Create(r.cwd, p)
		if err != nil {
			r.errf("op %s: cannot create %s: %v", o.Name, p, err)
			return sh.finish(o, 1, "")
		}
		chunks := o.Chunks
		partial := o.Fail == FailExitPartial && idx == o.FailArg%len(o.Outputs)
		if partial && chunks < 2 {
			chunks = 2
		}
		if chunks > len(data) {
			chunks = len(data)
		}
		if len(data) == 0 {
			// an empty output: created, nothing to write
			if partial {
				r.errf("op %s: injected failure after creating %s", o.Name, p)
				return sh.finish(o, 1, "")
			}
			o.Written[p] = true
			continue
		}
		csize := (len(data) + chunks - 1) / chunks
		if o.BgLate && idx == 0 && o.Fail == FailNone {
			// the tool returns at once; a helper it left behind writes the first
			// output later (the file just created above is removed again: it does
			// not exist when the command returns)
			fs.Remove(r.cwd, p)
			all, cwd, pp := data, r.cwd, p
			// (the helper is detached: it does not hold the command's output pipe, so
			// nobody waits for it and it is not counted as part of the executing task)
			delay := 1000000 + int64(s.Tape.Choose(StDur, 6, 0))*int64(o.DurNS+1000)
			Go("op:late-writer", func() {
				s.SleepNS(delay)
				s.Pre("op-bg-create", 0, pp)
				if nn, ab, err := fs.Create(cwd, pp); err == nil {
					fs.WriteAt(nn, ab, 0, all)
				}
			})
			o.Written[p] = true
			continue
		}
		if o.BgTail && idx == 0 && len(data) >= 2 && o.Fail == FailNone {
			// `producer | tee >(filter > OUT)` style: the command returns while a
			// child that inherited its stdout/stderr still writes the rest of OUT
			half := len(data) / 2
			if step("write-chunk", p) {
				return sh.finish(o, -1, "killed")
			}
			fs.WriteAt(n, abs, 0, data[:half])
			rest, node, ab := data[half:], n, abs
			delay := 1000 + int64(s.Tape.Choose(StDur, 6, 0))*int64(o.DurNS+1000)
			r.children.Add(1)
			o.BgActive = true
			Go("op:background-writer", func() {
				defer r.children.Done()
				defer func() { o.BgActive = false }()
				s.SleepNS(delay)
				s.Pre("op-bg-write", 0, ab)
				fs.WriteAt(node, ab, half, rest)
			})
			o.Written[p] = true
			continue
		}
		for off := 0; off < len(data); off += csize {
			end := off + csize
			if end > len(data) {
				end = len(data)
			}
			if step("write-chunk", p) {
				return sh.finish(o, -1, "killed")
			}
			fs.WriteAt(n, abs, off, data[off:end])
			if partial {
				r.errf("op %s: injected failure after partial write of %s", o.Name, p)
				return sh.finish(o, 1, "")
			}
		}
		o.Written[p] = true
	}
	for _, p := range o.Extras {
		if step("extra", p) {
			return sh.finish(o, -1, "killed")
		}
		if i := strings.LastIndex(p, "/"); i > 0 {
			fs.MkdirAll(r.cwd, p[:i])
		}
		n, abs, err := fs.Create(r.cwd, p)
		if err != nil {
			r.errf("op %s: cannot create %s: %v", o.Name, p, err)
			return sh.finish(o, 1, "")
		}
		fs.AppendData(n, abs, []byte("extra:"+o.Key+"\n"))
	}
	if o.Fail == FailExitAfter {
		// the command lingers after closing its outputs and only then fails
		s.SleepNS(o.DurNS)
	}
	if step("exit", "") || o.Fail == FailSignal {
		return sh.finish(o, -1, "killed")
	}
	if o.Fail == FailExitAfter {
		r.errf("op %s: injected failure after writing all outputs", o.Name)
		return sh.finish(o, 1, "")
	}
	return sh.finish(o, 0, "")
}

// --- hooks for Go-function tasks (CustomExecute) ----------------------------------

// CustomStart / CustomEnd let a Go-function task appear in the execution
// trace like a command does.
func (sh *Shell) CustomStart(name string, inputs []string, params []string) *OpInst {
	s := sh.s
	o := &OpInst{Seq: len(sh.Insts), Name: name, Cwd: s.FS.Cwd, Written: map[string]bool{}}
	o.Inputs = inputs
	o.Params = params
	o.Key = TaskKey(name, inputs, params)
	if sh.Plan != nil {
		sh.Plan(o)
	}
	sh.Insts = append(sh.Insts, o)
	o.Running = true
	o.StartStep = s.Steps
	o.StartNS = s.now
	o.StartAbs = s.Cfg.Epoch + s.now
	sh.traceEv("start", o)
	return o
}

// CustomBarrier: the rendezvous of `op -barrier K` for Go-function tasks: the
// caller blocks until K tasks with the same K are inside.
func (sh *Shell) CustomBarrier(o *OpInst, k int) {
	s := sh.s
	if k <= 1 {
		return
	}
	s.Pre("barrier", k, o.Key)
	sh.barrierN[k]++
	if sh.barrierN[k] >= k {
		s.Probe("barrier-released")
		for _, g := range sh.barrier[k] {
			s.ready(g)
		}
		sh.barrier[k] = nil
		sh.barrierN[k] -= k
	} else {
		sh.barrier[k] = append(sh.barrier[k], s.cur)
		s.park(fmt.Sprintf("Go function of %s: barrier of %d", o.Name, k))
	}
}

func (sh *Shell) CustomEnd(o *OpInst, code int) {
	sh.finish(o, code, "")
}

var _ = syscall.EPIPE
