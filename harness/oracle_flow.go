package harness

import (
	"fmt"
	"regexp"
	"sort"
	"strings"

	"verif/simrt"
)

// C04 (exactly-once data flow), C05 (Run returns exactly when all work is
// done), C06 (slot bound), C08 (ordering), C16 (wiring / RunTo closure).

var profC04 = Profile{
	MaxProcs: 5, MaxItems: 4, Bufsizes: []int{0, 1, 2, 3}, MaxSlots: 6,
	Params: true, MultiOut: true, FanIn: true, FanOut: true, NoPort: true, Custom: true,
	Subdirs: true, Cores: true, Recorders: true, ParamSrc: true, TwoSources: true, Zip: true, Sinkless: true, Joins: true, EmptyOuts: true, Taggers: true,
}

func tierProfile(p Profile, tier string) Profile {
	if tier == "thorough" {
		p.MaxProcs += 2
		p.MaxItems += 2
		p.LongStreams = []int{9, 17, 130, 140}
	}
	return p
}

// crashTierProfile: checks that enumerate every crash state of a schedule
// (and re-run from each) stay with short streams also in the thorough tier:
// their cost is quadratic in the number of file-system operations.
func crashTierProfile(p Profile, tier string) Profile {
	if tier == "thorough" {
		p.MaxProcs += 1
		p.MaxItems += 1
		p.LongStreams = []int{5}
	}
	return p
}

// flowOracle: the common "result is a function of the graph" check.
func flowOracle(inc *Inc, ex *Expect) Verdict {
	s := inc.Sim
	if v, ok := inconclusiveEnd(inc); ok {
		return v
	}
	if !completedOK(inc) {
		return Viol("no-completion", "end="+s.End.String(), "well-formed workflow did not complete: %s", endDesc(inc))
	}
	// every task executed exactly once
	got := execKeys(s.Shell.Trace, "exit", 0)
	missing, extra := multisetDiff(got, ex.TaskKeys())
	if len(missing) > 0 {
		return Viol("task-lost", "", "task(s) never executed: %v", missing)
	}
	if len(extra) > 0 {
		return Viol("task-duplicated", "", "task(s) executed more often than the reference says: %v", extra)
	}
	starts := execKeys(s.Shell.Trace, "start", 0)
	if len(starts) != len(got) {
		return Viol("task-unfinished", "", "%d commands started but %d exited 0", len(starts), len(got))
	}
	if c, d := checkFinalFiles(s.FS.Root, ex, false); c != "" {
		return Viol(c, "", "%s", d)
	}
	// recorders: every item emitted on an edge arrived exactly once
	var keys []string
	for k := range inc.RT.Recorded {
		keys = append(keys, k)
	}
	sort.Strings(keys)
	for _, n := range ex.WF.Nodes {
		if n.Kind != KProc || !ex.Active[n.Name] {
			continue
		}
		for _, in := range n.Ins {
			for _, e := range in.From {
				up := ex.WF.Nodes[e.Node]
				if !up.Rec {
					continue
				}
				k := recKey(up.Name, e.Port, n.Name, in.Name)
				st := ex.Streams[up.Name+"."+e.Port]
				var want []string
				if st != nil {
					for _, it := range st.Items {
						want = append(want, it.Path)
					}
				}
				gotR := append([]string(nil), inc.RT.Recorded[k]...)
				m, x := multisetDiff(gotR, want)
				if len(m) > 0 {
					return Viol("item-lost", "", "edge %s: item(s) never delivered: %v", k, m)
				}
				if len(x) > 0 {
					return Viol("item-duplicated", "", "edge %s: item(s) delivered more than once: %v", k, x)
				}
			}
		}
	}
	return OK()
}

func sample(w *WF) string { return w.Describe() }

func init() {
	Register(&Check{ID: "C04", Level: "exploration",
		Rule: "one case = one generated acyclic workflow (graph shape, stream lengths, bufsize, slots, cores from the gen stream) run once under one tape-chosen schedule (strategy, preemptions, select picks, map orders, command durations). distinct = distinct event-log hash; non-trivial = at least 2 tasks executed and at least one non-default scheduling/map/select/duration choice",
		Run: func(c *Case) Verdict {
			var w *WF
			if c.Tape.Choose(simrt.StGen, 10, 0) == 1 {
				// files found by a dependent FileGlobber: which ones are found must
				// not depend on when the upstream tasks finish
				w = globDepWF(c)
			} else {
				w = Generate(c.Tape, tierProfile(profC04, c.Tier))
				AddTagArgs(c.Tape, w) // some commands receive tag values ({t:port.key})
			}
			c.Sample = sample(w)
			ex := Eval(w)
			var root *simrt.Inode
			nextIno := 0
			if c.Tape.Choose(simrt.StGen, 4, 0) == 1 {
				// some outputs are already there (complete tasks, reference bytes):
				// the result must still be the same function of graph and inputs
				// (placed without audit files, so the tags of their lineage are gone:
				// no command may then depend on an inherited tag)
				for i := range w.Nodes {
					w.Nodes[i].TagArgs = nil
				}
				ex = Eval(w)
				var pre map[string][]byte
				root, nextIno, pre = preplaceMap(c, w, ex, false)
				ex = EvalWith(w, pre)
				c.Sample = fmt.Sprintf("pre-existing %v: %s", keysOf(pre), c.Sample)
			}
			inc := RunInc(w, c.Tape, root, nextIno, IncOpts{KillAt: -1, Strategy: strategyOf(c.Tape), Trace: c.Trace})
			c.Absorb(inc)
			return flowOracle(inc, ex)
		}})
}

// --- C05 -----------------------------------------------------------------------------

var profC05 = Profile{
	MaxProcs: 5, MaxItems: 4, Bufsizes: []int{0, 1, 2, 3}, MaxSlots: 4,
	Params: true, MultiOut: true, FanIn: true, FanOut: true, NoPort: true, Sinkless: true,
	Subdirs: true, Cores: true, TwoSources: true, Zip: true, RunTo: true, Joins: true, EmptyOuts: true,
}

// returnOracle checks the state at the instant Run returned.
func returnOracle(inc *Inc, ex *Expect) Verdict {
	s := inc.Sim
	if v, ok := inconclusiveEnd(inc); ok {
		return v
	}
	if s.End == simrt.EndDeadlock {
		return Viol("deadlock", deadlockSig(inc), "Run never returns: %s", endDesc(inc))
	}
	if !completedOK(inc) {
		return Viol("no-completion", "end="+s.End.String(), "well-formed workflow did not complete: %s", endDesc(inc))
	}
	rt := inc.RT
	if len(rt.ReturnRunning) > 0 {
		return Viol("early-return", earlySig(inc, ex), "Run returned while command(s) still executing: %v", rt.ReturnRunning)
	}
	if c, d := checkFinalFiles(rt.ReturnSnap, ex, false); c != "" {
		return Viol("early-return/"+c, earlySig(inc, ex), "at the instant Run returned: %s", d)
	}
	got := execKeys(s.Shell.Trace, "exit", 0)
	missing, extra := multisetDiff(got, ex.TaskKeys())
	if len(missing) > 0 {
		return Viol("early-return/task-lost", earlySig(inc, ex), "Run returned but task(s) never executed: %v", missing)
	}
	if len(extra) > 0 {
		return Viol("task-duplicated", earlySig(inc, ex), "task(s) executed more than once: %v", extra)
	}
	return OK()
}

// structural signatures used to recognise the known findings of C05
func sinklessLeaves(ex *Expect) []string {
	var r []string
	for _, n := range ex.WF.Nodes {
		if n.Kind == KProc && ex.Active[n.Name] && len(n.Outs) == 0 {
			r = append(r, n.Name)
		}
	}
	return r
}

func earlySig(inc *Inc, ex *Expect) string {
	sl := sinklessLeaves(ex)
	if len(sl) == 0 {
		return "no-sinkless-leaf"
	}
	nact := 0
	for _, n := range ex.WF.Nodes {
		if ex.Active[n.Name] {
			nact++
		}
	}
	if nact == 1 || len(ex.WF.RunTo) > 0 {
		return "driver-in-start-set"
	}
	return "sinkless-leaf-plus-sink-branch"
}

func deadlockSig(inc *Inc) string {
	d := inc.Sim.DeadlockString()
	switch {
	case strings.Contains(d, "fifo"):
		return "fifo"
	case strings.Contains(d, "mutex"):
		return "mutex"
	}
	return "channels"
}

func init() {
	Register(&Check{ID: "C05", Level: "exploration",
		Rule: "one case = one generated workflow (incl. several leaf branches, a leaf without out-ports, RunTo) under one tape-chosen schedule; liveness = the incarnation reaches RUN-RETURNED (a state with nothing runnable and no timer is a deadlock); safety evaluated on the snapshot the workflow program takes right after Run returns. distinct = distinct event-log hash; non-trivial = >=2 tasks and >=1 non-default choice",
		Run: func(c *Case) Verdict {
			var w *WF
			switch c.Tape.Choose(simrt.StGen, 8, 0) {
			case 1:
				// RunTo through a chain of parameter connections, possibly with a
				// dangling parameter stream next to a dangling file stream
				w = paramChainWF(c)
			case 2:
				// a bundled component between command processes: Run must return
				var kind string
				w, kind = componentCase(c)
				if kind == "splitter" || kind == "concat" {
					// (their consumers are not predicted by the reference: liveness only)
					c.Sample = kind + ": " + sample(w)
					inc := RunInc(w, c.Tape, nil, 0, IncOpts{KillAt: -1, Strategy: strategyOf(c.Tape), Trace: c.Trace})
					c.Absorb(inc)
					if v, ok := inconclusiveEnd(inc); ok {
						return v
					}
					if inc.Sim.End == simrt.EndDeadlock {
						return Viol("deadlock", deadlockSig(inc), "Run never returns: %s", endDesc(inc))
					}
					return OK()
				}
			default:
				w = Generate(c.Tape, tierProfile(profC05, c.Tier))
				if profC05.RunTo && c.Tape.Choose(simrt.StGen, 4, 0) == 1 {
					pickRunTo(c.Tape, w)
				}
			}
			c.Sample = sample(w)
			ex := Eval(w)
			inc := RunInc(w, c.Tape, nil, 0, IncOpts{KillAt: -1, Strategy: strategyOf(c.Tape), Trace: c.Trace})
			c.Absorb(inc)
			return returnOracle(inc, ex)
		}})
}

func pickRunTo(t *simrt.Tape, w *WF) {
	var procs []string
	for _, n := range w.Nodes {
		if n.Kind == KProc {
			procs = append(procs, n.Name)
		}
	}
	if len(procs) == 0 {
		return
	}
	k := 1 + t.Choose(simrt.StGen, min(3, len(procs)), 0)
	seen := map[string]bool{}
	for i := 0; i < k; i++ {
		p := procs[t.Choose(simrt.StGen, len(procs), 0)]
		if !seen[p] {
			seen[p] = true
			w.RunTo = append(w.RunTo, p)
		}
	}
	w.RunToMode = t.Choose(simrt.StGen, 3, 0)
	if w.RunToMode == 1 {
		// patterns are regular expressions, unanchored: "p1" also selects p10;
		// sometimes use a character class that selects several processes
		if t.Choose(simrt.StGen, 3, 0) == 1 {
			pat := fmt.Sprintf("p[%d%d]", t.Choose(simrt.StGen, 4, 0), 1+t.Choose(simrt.StGen, 4, 0))
			re := regexp.MustCompile(pat)
			for _, p := range procs {
				if re.MatchString(p) {
					w.RunTo = []string{pat} // (only if it selects something: an empty run set is refused)
					break
				}
			}
		} else if t.Choose(simrt.StGen, 2, 0) == 1 {
			for i := range w.RunTo {
				w.RunTo[i] = "^" + w.RunTo[i] + "$"
			}
		}
	}
}

var _ = fmt.Sprint

// ExportCase generates a workflow for the native fidelity run (shell-command
// processes, sources, parameters, taggers, joins; no Go-function tasks, no
// absolute paths) together with the reference result.
func ExportCase(t *simrt.Tape) (*WF, map[string]string, []string) {
	p := Profile{MaxProcs: 5, MaxItems: 4, Bufsizes: []int{0, 1, 2, 3}, MaxSlots: 6,
		Params: true, MultiOut: true, FanIn: true, FanOut: true, NoPort: true,
		Subdirs: true, Cores: true, ParamSrc: true, TwoSources: true, Zip: true, Taggers: true, Joins: true, Extras: true, EmptyOuts: true}
	var w *WF
	if t.Choose(simrt.StGen, 6, 0) == 1 {
		// a streaming pair: real FIFOs, real blocking opens
		w = streamWF(NewCase("export", "quick", t))
	} else {
		w = Generate(t, p)
		AddTagArgs(t, w)
	}
	ex := Eval(w)
	files := map[string]string{}
	for k, v := range ex.Files {
		if ex.StreamPaths[k] {
			continue // (never a file: the bytes go through the pipe)
		}
		files[k] = string(v)
	}
	return w, files, ex.TaskKeys()
}
