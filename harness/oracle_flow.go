package harness

import (
	"fmt"
	"regexp"
	"sort"
	"strings"

	"verif/simrt"
)

// C04 (exactly-once data flow), C05 (Run returns exactly when all work is
// done), C06 (slot bound), C08 (ordering), C16 (wiring / RunTo closure).

var profC04 = Profile{
	MaxProcs: 5, MaxItems: 4, Bufsizes: []int{0, 1, 2, 3}, MaxSlots: 6,
	Params: true, MultiOut: true, FanIn: true, FanOut: true, NoPort: true, Custom: true,
	Subdirs: true, Cores: true, Recorders: true, ParamSrc: true, TwoSources: true, Zip: true, Sinkless: true, Joins: true, EmptyOuts: true, Taggers: true,
}

func tierProfile(p Profile, tier string) Profile {
	if tier == "thorough" {
		p.MaxProcs += 2
		p.MaxItems += 2
		p.LongStreams = []int{9, 17, 130, 140}
	}
	return p
}

// crashTierProfile: checks that enumerate every crash state of a schedule
// (and re-run from each) stay with short streams also in the thorough tier:
// their cost is quadratic in the number of file-system operations.
func crashTierProfile(p Profile, tier string) Profile {
	if tier == "thorough" {
		p.MaxProcs += 1
		p.MaxItems += 1
		p.LongStreams = []int{5}
	}
	return p
}

// flowOracle: the common "result is a function of the graph" check.
func flowOracle(inc *Inc, ex *Expect) Verdict {
	s := inc.Sim
	if v, ok := inconclusiveEnd(inc); ok {
		return v
	}
	if !completedOK(inc) {
		return Viol("no-completion", "end="+s.End.String(), "well-formed workflow did not complete: %s", endDesc(inc))
	}
	// every task executed exactly once
	got := execKeys(s.Shell.Trace, "exit", 0)
	missing, extra := multisetDiff(got, ex.TaskKeys())
	if len(missing) > 0 {
		return Viol("task-lost", "", "task(s) never executed: %v", missing)
	}
	if len(extra) > 0 {
		return Viol("task-duplicated", "", "task(s) executed more often than the reference says: %v", extra)
	}
	starts := execKeys(s.Shell.Trace, "start", 0)
	if len(starts) != len(got) {
		return Viol("task-unfinished", "", "%d commands started but %d exited 0", len(starts), len(got))
	}
	if c, d := checkFinalFiles(s.FS.Root, ex, false); c != "" {
		return Viol(c, "", "%s", d)
	}
	// recorders: every item emitted on an edge arrived exactly once
	var keys []string
	for k := range inc.RT.Recorded {
		keys = append(keys, k)
	}
	sort.Strings(keys)
	for _, n := range ex.WF.Nodes {
		if n.Kind != KProc || !ex.Active[n.Name] {
			continue
		}
		for _, in := range n.Ins {
			for _, e := range in.From {
				up := ex.WF.Nodes[e.Node]
				if !up.Rec {
					continue
				}
				k := recKey(up.Name, e.Port, n.Name, in.Name)
				st := ex.Streams[up.Name+"."+e.Port]
				var want []string
				if st != nil {
					for _, it := range st.Items {
						want = append(want, it.Path)
					}
				}
				gotR := append([]string(nil), inc.RT.Recorded[k]...)
				m, x := multisetDiff(gotR, want)
				if len(m) > 0 {
					return Viol("item-lost", "", "edge %s: item(s) never delivered: %v", k, m)
				}
				if len(x) > 0 {
					return Viol("item-duplicated", "", "edge %s: item(s) delivered more than once: %v", k, x)
				}
			}
		}
	}
	return OK()
}

func sample(w *WF) string { return w.Describe() }

func init() {
	Register(&Check{ID: "C04", Level: "exploration",
		Rule: "one case = one generated acyclic workflow (graph shape, stream lengths, bufsize, slots, cores from the gen stream) run once under one tape-chosen schedule (strategy, preemptions, select picks, map orders, command durations). Round 5: Go-function nodes whose parameters are read only by the function (InParam + task.Param), the empty string as a value. Round 6: numeric parameter values through FromInt / FromFloat; CommandToParams sources; equivalent API calls from the api stream. Round 7: FileToParamsReader sources; parameter values that differ in case only; task count under default names. distinct = distinct event-log hash; non-trivial = at least 2 tasks executed and at least one non-default scheduling/map/select/duration choice",
		Run: func(c *Case) Verdict {
			var w *WF
			if c.Tape.Choose(simrt.StGen, 10, 0) == 1 {
				// files found by a dependent FileGlobber: which ones are found must
				// not depend on when the upstream tasks finish
				w = globDepWF(c)
			} else {
				w = Generate(c.Tape, tierProfile(profC04, c.Tier))
				// (first: these change path names, on which the taggers' decisions depend)
				if HideParams(c.Tape, w) {
					c.Probe("gofunc-with-hidden-params")
				}
				if NumericParams(c.Tape, w) {
					c.Probe("numeric-parameter-values")
				}
				if len(CmdSources(c.Tape, w)) > 0 {
					c.Probe("command-to-params-source")
				}
				AddTagArgs(c.Tape, w) // some commands receive tag values ({t:port.key})
			}
			c.Sample = sample(w)
			if v, done := defaultNamesDeterminism(c, w); done {
				return v
			}
			ex := Eval(w)
			var root *simrt.Inode
			nextIno := 0
			if c.Tape.Choose(simrt.StGen, 4, 0) == 1 {
				// some outputs are already there (complete tasks, reference bytes):
				// the result must still be the same function of graph and inputs
				// (placed without audit files, so the tags of their lineage are gone:
				// no command may then depend on an inherited tag)
				for i := range w.Nodes {
					w.Nodes[i].TagArgs = nil
				}
				ex = Eval(w)
				var pre map[string][]byte
				root, nextIno, pre = preplaceMap(c, w, ex, false)
				ex = EvalWith(w, pre)
				c.Sample = fmt.Sprintf("pre-existing %v: %s", keysOf(pre), c.Sample)
			}
			inc := RunInc(w, c.Tape, root, nextIno, IncOpts{KillAt: -1, Strategy: strategyOf(c.Tape), Trace: c.Trace})
			c.Absorb(inc)
			return flowOracle(inc, ex)
		}})
}

// --- C05 -----------------------------------------------------------------------------

var profC05 = Profile{
	MaxProcs: 5, MaxItems: 4, Bufsizes: []int{0, 1, 2, 3}, MaxSlots: 4,
	Params: true, MultiOut: true, FanIn: true, FanOut: true, NoPort: true, Sinkless: true,
	Subdirs: true, Cores: true, TwoSources: true, Zip: true, RunTo: true, Joins: true, EmptyOuts: true,
	// (Go-function tasks take and return their slots on a code path of their own)
	Custom: true,
}

// lightReturnOracle: liveness and the return-instant clauses only (for
// workloads whose files the reference does not predict: nested workflows, a
// run that legitimately stops with an error).
func lightReturnOracle(inc *Inc, mustComplete bool) Verdict {
	s := inc.Sim
	if v, ok := inconclusiveEnd(inc); ok {
		return v
	}
	if s.End == simrt.EndDeadlock {
		return Viol("deadlock", deadlockSig(inc), "Run never returns: %s", endDesc(inc))
	}
	if !inc.RT.RunReturned {
		if mustComplete {
			return Viol("no-completion", "end="+s.End.String(), "well-formed workflow did not complete: %s", endDesc(inc))
		}
		return OK()
	}
	if len(inc.RT.ReturnRunning) > 0 {
		return Viol("early-return", "light", "Run returned while command(s) still executing: %v", inc.RT.ReturnRunning)
	}
	if left := Leftovers(inc.RT.ReturnSnap); len(left) > 0 {
		return Viol("early-return/tmp-left", "light", "Run returned but temp directories / FIFOs of the run are left behind: %v", left)
	}
	return OK()
}

// returnOracle checks the state at the instant Run returned.
func returnOracle(inc *Inc, ex *Expect) Verdict {
	s := inc.Sim
	if v, ok := inconclusiveEnd(inc); ok {
		return v
	}
	if s.End == simrt.EndDeadlock {
		return Viol("deadlock", deadlockSig(inc), "Run never returns: %s", endDesc(inc))
	}
	if !completedOK(inc) {
		return Viol("no-completion", "end="+s.End.String(), "well-formed workflow did not complete: %s", endDesc(inc))
	}
	rt := inc.RT
	if len(rt.ReturnRunning) > 0 {
		return Viol("early-return", earlySig(inc, ex), "Run returned while command(s) still executing: %v", rt.ReturnRunning)
	}
	if c, d := checkFinalFiles(rt.ReturnSnap, ex, false); c != "" {
		return Viol("early-return/"+c, earlySig(inc, ex), "at the instant Run returned: %s", d)
	}
	got := execKeys(s.Shell.Trace, "exit", 0)
	missing, extra := multisetDiff(got, ex.TaskKeys())
	if len(missing) > 0 {
		return Viol("early-return/task-lost", earlySig(inc, ex), "Run returned but task(s) never executed: %v", missing)
	}
	if len(extra) > 0 {
		return Viol("task-duplicated", earlySig(inc, ex), "task(s) executed more than once: %v", extra)
	}
	return OK()
}

// structural signatures used to recognise the known findings of C05
func sinklessLeaves(ex *Expect) []string {
	var r []string
	for _, n := range ex.WF.Nodes {
		if n.Kind == KProc && ex.Active[n.Name] && len(n.Outs) == 0 {
			r = append(r, n.Name)
		}
	}
	return r
}

func earlySig(inc *Inc, ex *Expect) string {
	sl := sinklessLeaves(ex)
	if len(sl) == 0 {
		return "no-sinkless-leaf"
	}
	nact := 0
	for _, n := range ex.WF.Nodes {
		if ex.Active[n.Name] {
			nact++
		}
	}
	if nact == 1 || len(ex.WF.RunTo) > 0 {
		return "driver-in-start-set"
	}
	return "sinkless-leaf-plus-sink-branch"
}

func deadlockSig(inc *Inc) string {
	d := inc.Sim.DeadlockString()
	switch {
	case strings.Contains(d, "fifo"):
		return "fifo"
	case strings.Contains(d, "mutex"):
		return "mutex"
	}
	return "channels"
}

func init() {
	Register(&Check{ID: "C05", Level: "exploration",
		Rule: "one case = one generated workflow (incl. several leaf branches, a leaf without out-ports, RunTo) under one tape-chosen schedule; liveness = the incarnation reaches RUN-RETURNED (a state with nothing runnable and no timer is a deadlock); safety evaluated on the snapshot the workflow program takes right after Run returns. Round 5: a command printing 70-300 KB without newline; a command leaving 60/1100 scratch files. Round 6: Go-function tasks; a nested workflow run by a Go function; an extra file that cannot be moved out of the temp directory. Round 7: several processes without out-ports; dotted process names. distinct = distinct event-log hash; non-trivial = >=2 tasks and >=1 non-default choice",
		Run: func(c *Case) Verdict {
			var w *WF
			generated := false
			switch c.Tape.Choose(simrt.StGen, 8, 0) {
			case 1:
				// RunTo through a chain of parameter connections, possibly with a
				// dangling parameter stream next to a dangling file stream
				w = paramChainWF(c)
			case 2:
				// a bundled component between command processes: Run must return
				var kind string
				w, kind = componentCaseWellFormed(c)
				if kind == "splitter" || kind == "concat" {
					// (their consumers are not predicted by the reference: liveness only)
					c.Sample = kind + ": " + sample(w)
					inc := RunInc(w, c.Tape, nil, 0, IncOpts{KillAt: -1, Strategy: strategyOf(c.Tape), Trace: c.Trace})
					c.Absorb(inc)
					if v, ok := inconclusiveEnd(inc); ok {
						return v
					}
					if inc.Sim.End == simrt.EndDeadlock {
						return Viol("deadlock", deadlockSig(inc), "Run never returns: %s", endDesc(inc))
					}
					if inc.RT.RunReturned {
						if left := Leftovers(inc.RT.ReturnSnap); len(left) > 0 {
							return Viol("early-return/tmp-left", "component", "Run returned but temp directories / FIFOs of the run are left behind: %v", left)
						}
						if len(inc.RT.ReturnRunning) > 0 {
							return Viol("early-return", "component", "Run returned while command(s) still executing: %v", inc.RT.ReturnRunning)
						}
					}
					return OK()
				}
			default:
				generated = true
				w = Generate(c.Tape, tierProfile(profC05, c.Tier))
				if profC05.RunTo && c.Tape.Choose(simrt.StGen, 4, 0) == 1 {
					pickRunTo(c.Tape, w)
				}
			}
			pick := c.Tape.Choose(simrt.StGen, 24, 0)
			if !generated {
				pick = 0
			}
			seenBase := map[string]bool{}
			for p := range w.Sources {
				if seenBase[baseName(p)] {
					pick = 0 // (scratch names are built from base names: they would clash)
				}
				seenBase[baseName(p)] = true
			}
			switch pick {
			case 6:
				// TWO processes without out-ports: refusing such a workflow before any
				// command is what the library documents; if it runs it, Run must still
				// return only when every task of both has finished
				w2 := &WF{Name: "wf", Sources: map[string]string{}, MaxTasks: 2 + c.Tape.Choose(simrt.StGen, 3, 0), Bufsize: bufsizeOf(c.Tape)}
				e := Edge{srcNode(w2, "src0", 1+c.Tape.Choose(simrt.StGen, 3, 0), ""), "out"}
				if c.Tape.Choose(simrt.StGen, 2, 0) == 1 {
					e = Edge{oneToOne(w2, "pre", e), "o0"}
				}
				for _, nm := range []string{"enda", "endb", "endc"}[:2+c.Tape.Choose(simrt.StGen, 2, 0)] {
					addNode(w2, Node{Name: nm, Kind: KProc, Cores: 1, Ins: []InSpec{{Name: "a", From: []Edge{e}}}})
				}
				c.Sample = "several processes without out-ports: " + sample(w2)
				c.Probe("several-sinkless-leaves")
				inc := RunInc(w2, c.Tape, nil, 0, IncOpts{KillAt: -1, Strategy: strategyOf(c.Tape), Trace: c.Trace})
				c.Absorb(inc)
				if v := lightReturnOracle(inc, false); v.Status != "ok" {
					return v
				}
				if inc.RT.RunReturned {
					if got, want := len(execKeys(inc.Sim.Shell.Trace, "exit", 0)), len(Eval(w2).Tasks); got != want {
						return Viol("early-return/task-lost", "several-sinkless-leaves", "Run returned after %d of %d tasks (several processes without out-ports)", got, want)
					}
				}
				return OK()
			case 3, 4:
				// a Go-function task runs a nested workflow (slots of its own) before it
				// writes its outputs: Run of the outer one still returns, nothing left
				for i := range w.Nodes {
					if n := &w.Nodes[i]; n.Kind == KProc && n.Custom != 0 && len(n.Ins) > 0 && !n.Ins[0].Join {
						n.Nest = 1 + c.Tape.Choose(simrt.StGen, 2, 0)
						c.Probe("nested-workflow")
						c.Sample = sample(w)
						inc := RunInc(w, c.Tape, nil, 0, IncOpts{KillAt: -1, Strategy: strategyOf(c.Tape), Trace: c.Trace})
						c.Absorb(inc)
						return lightReturnOracle(inc, true)
					}
				}
			case 5:
				// an extra file of one task cannot be moved out of the temp directory
				// (a directory of that name is in the way): stopping with an error is
				// fine - but if Run returns, nothing of the run may be left behind
				for i := range w.Nodes {
					n := &w.Nodes[i]
					if !(n.Kind == KProc && n.Custom == 0 && len(n.Ins) > 0 && !n.Ins[0].Join && len(n.Outs) > 0 && len(n.Extras) == 0) {
						continue
					}
					n.Extras = []string{"blocked_{i:" + n.Ins[0].Name + "|basename}"}
					ex1 := Eval(w)
					k := 0
					for _, tk := range ex1.Tasks {
						if tk.Node == i && k < 1 {
							w.Dirs = append(w.Dirs, "/work/blocked_"+baseName(tk.Ins[n.Ins[0].Name].Path))
							k++
						}
					}
					if k == 0 {
						n.Extras = nil
						break
					}
					c.Fault("extra-file-blocked-by-a-directory")
					c.Sample = "an extra file cannot be moved out: " + sample(w)
					inc := RunInc(w, c.Tape, nil, 0, IncOpts{KillAt: -1, Strategy: strategyOf(c.Tape), Trace: c.Trace})
					c.Absorb(inc)
					return lightReturnOracle(inc, false)
				}
			case 1:
				// a command that prints a long progress bar (no newline) on its standard
				// output: more than a pipe and a line buffer hold together
				for i := range w.Nodes {
					if n := &w.Nodes[i]; n.Kind == KProc && n.Custom == 0 {
						n.Say = []int{70000, 140000, 300000}[c.Tape.Choose(simrt.StGen, 3, 0)]
						c.Fault("chatty-command")
						break
					}
				}
			case 2:
				// a command that leaves very many scratch files in its working directory
				// (they are moved out, then the directory is removed - before Run returns)
				for i := range w.Nodes {
					if n := &w.Nodes[i]; n.Kind == KProc && n.Custom == 0 && len(n.Ins) > 0 && !n.Ins[0].Join && len(n.Outs) > 0 && len(n.Extras) == 0 {
						k := []int{60, 1100}[c.Tape.Choose(simrt.StGen, 2, 0)]
						for x := 0; x < k; x++ {
							n.Extras = append(n.Extras, fmt.Sprintf("scratch_%s_{i:%s|basename}/f%04d.tmp", n.Name, n.Ins[0].Name, x))
						}
						c.Fault("many-scratch-files")
						break
					}
				}
			}
			c.Sample = sample(w)
			if len(c.Sample) > 3000 {
				c.Sample = c.Sample[:3000] + "..."
			}
			ex := Eval(w)
			inc := RunInc(w, c.Tape, nil, 0, IncOpts{KillAt: -1, Strategy: strategyOf(c.Tape), Trace: c.Trace})
			c.Absorb(inc)
			return returnOracle(inc, ex)
		}})
}

func pickRunTo(t *simrt.Tape, w *WF) {
	var procs []string
	for _, n := range w.Nodes {
		if n.Kind == KProc {
			procs = append(procs, n.Name)
		}
	}
	if len(procs) == 0 {
		return
	}
	k := 1 + t.Choose(simrt.StGen, min(3, len(procs)), 0)
	seen := map[string]bool{}
	for i := 0; i < k; i++ {
		p := procs[t.Choose(simrt.StGen, len(procs), 0)]
		if !seen[p] {
			seen[p] = true
			w.RunTo = append(w.RunTo, p)
		}
	}
	w.RunToMode = t.Choose(simrt.StGen, 3, 0)
	if w.RunToMode == 1 {
		// patterns are regular expressions, unanchored: "p1" also selects p10;
		// sometimes use a character class that selects several processes
		if t.Choose(simrt.StGen, 3, 0) == 1 {
			pat := fmt.Sprintf("p[%d%d]", t.Choose(simrt.StGen, 4, 0), 1+t.Choose(simrt.StGen, 4, 0))
			re := regexp.MustCompile(pat)
			for _, p := range procs {
				if re.MatchString(p) {
					w.RunTo = []string{pat} // (only if it selects something: an empty run set is refused)
					break
				}
			}
		} else if t.Choose(simrt.StGen, 2, 0) == 1 {
			for i := range w.RunTo {
				w.RunTo[i] = "^" + w.RunTo[i] + "$"
			}
			if t.Choose(simrt.StGen, 2, 0) == 1 {
				// inline flags belong to the pattern they stand in: the first pattern
				// ignores case, a later one names a process in capitals and selects
				// nothing (process names are lower-case)
				w.RunTo[0] = "(?i)" + strings.ToUpper(w.RunTo[0])
				for _, p := range procs {
					if !seen[p] {
						w.RunTo = append(w.RunTo, "^"+strings.ToUpper(p)+"$")
						break
					}
				}
			}
		}
	}
}

var _ = fmt.Sprint

// NumericParams: some FromStr parameter streams get numeric values - whole
// numbers, or decimal fractions that need all the precision of a float64 - which
// the builder then feeds through FromInt / FromFloat.
func NumericParams(t *simrt.Tape, w *WF) bool {
	any := false
	for i := range w.Nodes {
		n := &w.Nodes[i]
		if n.Kind != KProc {
			continue
		}
		for k := range n.Params {
			p := &n.Params[k]
			if p.From != nil || len(p.Vals) == 0 || t.Choose(simrt.StGen, 4, 0) != 1 {
				continue
			}
			kind := t.Choose(simrt.StGen, 3, 0)
			for j := range p.Vals {
				switch kind {
				case 1:
					p.Vals[j] = fmt.Sprint(7 + 13*j + 100*k)
				case 2:
					// values that differ only in the case of their letters
					p.Vals[j] = []string{"Co", "CO", "cO", "co"}[j%4] + fmt.Sprint(k*10+j/4)
				default:
					p.Vals[j] = fmt.Sprintf("%d.%08d", 2+k, 1+j) // 2.00000001, 2.00000002, ...
				}
			}
			any = true
		}
	}
	return any
}

// CmdSources: some ParamSource nodes become CommandToParams components that
// print the same values (one echo per value).
func CmdSources(t *simrt.Tape, w *WF) map[string]string {
	out := map[string]string{}
	for i := range w.Nodes {
		n := &w.Nodes[i]
		if n.Kind != KParamSrc || t.Choose(simrt.StGen, 2, 0) != 1 {
			continue
		}
		if t.Choose(simrt.StGen, 3, 0) == 1 {
			// ... or a FileToParamsReader over a file with one value per line, the last
			// line possibly without a terminating newline
			content := strings.Join(n.Vals, "\n")
			if len(n.Vals) > 0 && t.Choose(simrt.StGen, 2, 0) == 1 {
				content += "\n"
			}
			n.Kind = KFileToParams
			n.FilePath = "params_" + n.Name + ".txt"
			w.Sources[n.FilePath] = content
			for j := range w.Nodes {
				for k := range w.Nodes[j].Params {
					if f := w.Nodes[j].Params[k].From; f != nil && f.Node == i {
						f.Port = "line"
					}
				}
			}
			continue
		}
		var cmds []string
		for _, v := range n.Vals {
			cmds = append(cmds, "echo "+v)
		}
		cmds = append(cmds, ": "+n.Name)
		n.Kind = KCmdToParams
		n.FilePath = strings.Join(cmds, " && ")
		out[n.Name] = n.FilePath
		for j := range w.Nodes {
			for k := range w.Nodes[j].Params {
				if f := w.Nodes[j].Params[k].From; f != nil && f.Node == i {
					f.Port = "param"
				}
			}
		}
	}
	return out
}

// HideParams: some Go-function nodes with an in-port get their parameters only
// through task.Param (ports made with InParam, no placeholder anywhere), and
// one value of such a stream may be the empty string - a value like any other.
func HideParams(t *simrt.Tape, w *WF) bool {
	any := false
	for i := range w.Nodes {
		n := &w.Nodes[i]
		if n.Kind != KProc || n.Custom == 0 || len(n.Ins) == 0 || n.Ins[0].Join || len(n.Params) == 0 {
			continue
		}
		ok := true
		for _, p := range n.Params {
			if p.From != nil || len(p.Vals) == 0 {
				ok = false
			}
		}
		for _, o := range n.Outs {
			if !strings.Contains(o.Pattern, "{i:a") {
				ok = false
			}
		}
		if !ok || t.Choose(simrt.StGen, 2, 0) != 1 {
			continue
		}
		n.HiddenParams = true
		for k := range n.Outs {
			for _, p := range n.Params {
				n.Outs[k].Pattern = strings.ReplaceAll(n.Outs[k].Pattern, ".{p:"+p.Name+"}", "")
			}
		}
		if t.Choose(simrt.StGen, 2, 0) == 1 {
			p := &n.Params[t.Choose(simrt.StGen, len(n.Params), 0)]
			p.Vals[t.Choose(simrt.StGen, len(p.Vals), 0)] = ""
		}
		any = true
	}
	return any
}

// ExportCase generates a workflow for the native fidelity run (shell-command
// processes, sources, parameters, taggers, joins; no Go-function tasks, no
// absolute paths) together with the reference result.
func ExportCase(t *simrt.Tape) (*WF, map[string]string, []string) {
	p := Profile{MaxProcs: 5, MaxItems: 4, Bufsizes: []int{0, 1, 2, 3}, MaxSlots: 6,
		Params: true, MultiOut: true, FanIn: true, FanOut: true, NoPort: true,
		Subdirs: true, Cores: true, ParamSrc: true, TwoSources: true, Zip: true, Taggers: true, Joins: true, Extras: true, EmptyOuts: true}
	var w *WF
	if t.Choose(simrt.StGen, 6, 0) == 1 {
		// a streaming pair: real FIFOs, real blocking opens
		w = streamWF(NewCase("export", "quick", t))
	} else {
		w = Generate(t, p)
		AddTagArgs(t, w)
	}
	ex := Eval(w)
	files := map[string]string{}
	for k, v := range ex.Files {
		if ex.StreamPaths[k] {
			continue // (never a file: the bytes go through the pipe)
		}
		files[k] = string(v)
	}
	return w, files, ex.TaskKeys()
}

// defaultNamesDeterminism: one case in eight runs the workflow with scipipe's
// DEFAULT output names (no SetOut) twice, on two fresh working directories
// and under two different schedules / map orders, and compares what was
// produced: "the set of files a workflow produces and their contents are a
// function of the workflow graph and its inputs alone, not of timing". No
// reference is needed for the names.
func defaultNamesDeterminism(c *Case, w *WF) (Verdict, bool) {
	if c.Tape.Choose(simrt.StGen, 8, 0) != 1 {
		return Verdict{}, false
	}
	seenBase := map[string]bool{}
	for p := range w.Sources {
		if seenBase[baseName(p)] {
			return Verdict{}, false // (default names use base names: two tasks would claim one path)
		}
		seenBase[baseName(p)] = true
	}
	for _, n := range w.Nodes {
		if n.Kind == KStreamToSub || n.Custom != 0 {
			return Verdict{}, false // (random carrier names; Go functions address outputs by name)
		}
	}
	for i := range w.Nodes {
		n := &w.Nodes[i]
		n.Rec = false
		for k := range n.Outs {
			n.Outs[k].Pattern = ""
		}
		n.Extras = nil
	}
	c.Sample = "default output names, two independent runs: " + sample(w)
	c.Fault("differential-runs")
	produced := func() (map[string]string, *Inc) {
		inc := RunInc(w, c.Tape, nil, 0, IncOpts{KillAt: -1, Strategy: strategyOf(c.Tape), Trace: c.Trace})
		c.Absorb(inc)
		m := map[string]string{}
		wf3 := WorkFiles(inc.Sim.FS.Root)
		for _, p := range sortedKeys(wf3) {
			e := wf3[p]
			if e.Kind == simrt.KFile && !strings.HasSuffix(p, ".audit.json") {
				m[p] = string(e.Data)
			}
		}
		return m, inc
	}
	a, inc1 := produced()
	if v, ok := inconclusiveEnd(inc1); ok {
		return v, true
	}
	if !completedOK(inc1) {
		return Skipped(Viol("no-completion", "", "%s", endDesc(inc1))), true
	}
	// (file names are not predicted here, but the NUMBER of tasks is: every input
	// set gets its task, none is skipped because another task claimed its path)
	globs := false
	for _, n := range w.Nodes {
		globs = globs || n.Kind == KGlobber // (a glob pattern is written for explicit names)
	}
	if got, want := len(execKeys(inc1.Sim.Shell.Trace, "exit", 0)), len(Eval(w).Tasks); got < want && !globs {
		return Viol("task-lost", "default-names", "default output names: %d input sets, but only %d tasks were executed (%v)", want, got, execKeys(inc1.Sim.Shell.Trace, "exit", 0)), true
	}
	b, inc2 := produced()
	if v, ok := inconclusiveEnd(inc2); ok {
		return v, true
	}
	if !completedOK(inc2) {
		return Viol("timing-dependent-result", tdSig(w), "the same workflow completed under one schedule but not under another: %s", endDesc(inc2)), true
	}
	for _, p := range sortedKeys(a) {
		if _, ok := b[p]; !ok {
			return Viol("timing-dependent-result", tdSig(w), "two runs of the same workflow on fresh directories produced different files: %s only in the first (second has %v)", p, sortedKeys(b)), true
		}
		if a[p] != b[p] {
			return Viol("timing-dependent-result", tdSig(w), "two runs of the same workflow on fresh directories produced different bytes in %s: %q vs %q", p, clip([]byte(a[p])), clip([]byte(b[p]))), true
		}
	}
	for _, p := range sortedKeys(b) {
		if _, ok := a[p]; !ok {
			return Viol("timing-dependent-result", tdSig(w), "two runs of the same workflow on fresh directories produced different files: %s only in the second (first has %v)", p, sortedKeys(a)), true
		}
	}
	return OK(), true
}

// tdSig: structural signature of a timing-dependent result. Known finding
// F-C04-1: a process that reads an out-port next to a tagging component (or
// another output of the tagged file's task) sees the tagger's tag or not,
// depending on timing - the record is shared - and with default output names
// the tag is part of the file name.
func tdSig(w *WF) string {
	if taggerSharesRecord(w) {
		return "sibling-of-tagger-default-name"
	}
	return ""
}
