package harness

import (
	"fmt"
	"path"
	"sort"
	"strings"

	"verif/simrt"
)

// C17 (streaming outputs), C18 (joined sub-streams), C19 (bundled components).

func srcNode(w *WF, name string, n int, dir string) int {
	node := Node{Name: name, Kind: KFileSrc}
	for i := 0; i < n; i++ {
		p := fmt.Sprintf("%s%s_%d.txt", dir, name, i)
		node.Files = append(node.Files, p)
		w.Sources[p] = fmt.Sprintf("source %s %d\n", name, i)
	}
	w.Nodes = append(w.Nodes, node)
	return len(w.Nodes) - 1
}

func addNode(w *WF, n Node) int {
	w.Nodes = append(w.Nodes, n)
	return len(w.Nodes) - 1
}

func oneToOne(w *WF, name string, up Edge) int {
	return addNode(w, Node{Name: name, Kind: KProc, Cores: 1,
		Ins:  []InSpec{{Name: "a", From: []Edge{up}}},
		Outs: []OutSpec{{Name: "o0", Pattern: "{i:a}." + name + ".o0"}}})
}

var itemCounts = []int{1, 2, 3, 0, 4, 5, 6}

func bufsizeOf(t *simrt.Tape) int { return []int{0, 1, 2, 3}[t.Choose(simrt.StGen, 4, 0)] }

// --- C17 ---------------------------------------------------------------------------------

func streamWF(c *Case) *WF {
	t := c.Tape
	w := &WF{Name: "wf", Sources: map[string]string{}}
	n := 1 + t.Choose(simrt.StGen, 3, 0)
	src := srcNode(w, "src0", n, "")
	up := Edge{src, "out"}
	if t.Choose(simrt.StGen, 2, 0) == 1 {
		up = Edge{oneToOne(w, "pre", up), "o0"}
	}
	pad := []int{0, 40, 100, 300}[t.Choose(simrt.StGen, 4, 0)]
	// the streamed path may lie in a directory that does not exist yet
	// (or in a sibling of the working directory: a path with ../)
	spat := []string{"{i:a}.prod.s", "streams/{i:a|basename}.prod.s", "d1/d2/{i:a|basename}.prod.s", "../ext/{i:a|basename}.prod.s"}[t.Choose(simrt.StGen, 4, 0)]
	w.Dirs = []string{"/ext"}
	prod := addNode(w, Node{Name: "prod", Kind: KProc, Cores: 1, PadTo: pad,
		Ins:  []InSpec{{Name: "a", From: []Edge{up}}},
		Outs: []OutSpec{{Name: "s", Pattern: spat, Stream: true}}})
	cons := Node{Name: "cons", Kind: KProc, Cores: 1,
		Ins:  []InSpec{{Name: "a", From: []Edge{{prod, "s"}}}},
		Outs: []OutSpec{{Name: "o0", Pattern: "{i:a}.cons.o0"}}}
	if t.Choose(simrt.StGen, 3, 0) == 1 {
		// the producer also has an ordinary output next to the streamed one
		o1 := OutSpec{Name: "o1", Pattern: "{i:a}.prod.o1"}
		if t.Choose(simrt.StGen, 2, 0) == 1 {
			// (written before the stream)
			w.Nodes[prod].Outs = append([]OutSpec{o1}, w.Nodes[prod].Outs...)
		} else {
			w.Nodes[prod].Outs = append(w.Nodes[prod].Outs, o1)
		}
		if t.Choose(simrt.StGen, 2, 0) == 1 {
			// ... and a second ordinary one
			w.Nodes[prod].Outs = append(w.Nodes[prod].Outs, OutSpec{Name: "o2", Pattern: "{i:a}.prod.o2"})
		}
	}
	if t.Choose(simrt.StGen, 3, 0) == 1 {
		// the consumer has an ordinary second in-port next to the streamed one
		cons.Ins = append(cons.Ins, InSpec{Name: "b", From: []Edge{up}})
	}
	if t.Choose(simrt.StGen, 4, 0) == 1 {
		// ... or a parameter port (one value per streamed item)
		ps := ParamSpec{Name: "x"}
		for i := 0; i < n; i++ {
			ps.Vals = append(ps.Vals, fmt.Sprintf("xv%d", i))
		}
		cons.Params = []ParamSpec{ps}
		cons.Outs[0].Pattern = "{i:a}.{p:x}.cons.o0"
	}
	if n == 1 && len(cons.Params) == 0 && t.Choose(simrt.StGen, 5, 0) == 1 {
		// ... or a joined in-port (a sub-stream of header files) next to the streamed one
		sh := srcNode(w, "srch", 1+t.Choose(simrt.StGen, 3, 0), "")
		sub := addNode(w, Node{Name: "subh", Kind: KStreamToSub, Ins: []InSpec{{Name: "in", From: []Edge{{sh, "out"}}}}, Outs: []OutSpec{{Name: "substream"}}})
		cons.Ins = append(cons.Ins, InSpec{Name: "h", From: []Edge{{sub, "substream"}}, Join: true, Sep: " "})
	}
	ci := addNode(w, cons)
	if t.Choose(simrt.StGen, 2, 0) == 1 {
		oneToOne(w, "post", Edge{ci, "o0"})
	}
	slots := 2 * n
	if t.Choose(simrt.StGen, 4, 0) == 1 {
		// a second streamed output of the producer, with a consumer of its own
		w.Nodes[prod].Outs = append(w.Nodes[prod].Outs, OutSpec{Name: "s2", Pattern: "{i:a}.prod.s2", Stream: true})
		addNode(w, Node{Name: "cons2", Kind: KProc, Cores: 1,
			Ins:  []InSpec{{Name: "a", From: []Edge{{prod, "s2"}}}},
			Outs: []OutSpec{{Name: "o0", Pattern: "{i:a}.cons2.o0"}}})
		slots = 3 * n
	}
	w.MaxTasks = slots + t.Choose(simrt.StGen, 3, 0)
	w.Bufsize = bufsizeOf(t)
	return w
}

func init() {
	Register(&Check{ID: "C17", Level: "exploration",
		Rule: "one case = one producer/consumer pair connected by an {os:..} port (optionally with a predecessor, a successor, an ordinary second output of the producer, the streamed path in a directory that does not exist yet), n=1..3 streamed items with maxConcurrentTasks>=2n, payload 20..300 bytes against a simulated pipe capacity of 16..256 bytes (blocking opens, full-pipe back-pressure, EOF on last close), producer/consumer durations drawn independently, under one tape-chosen schedule; optionally followed by a second run in place. Oracle: consumer output = reference function of the producer's bytes; at RUN-RETURNED no regular file at the streamed path and no .fifo; consumer's audit Upstream names the producer; second run terminates and leaves consumer outputs (inode, mtime, bytes) unchanged. Round 5: a third of the cases in idle-machine mode (clock advances only when nothing can run, commands last >= 1 ms): a consumer whose command ends later than its producer's must name the producer as upstream. Round 6: Go code opening FIFOs is simulated; a quarter of the cases run the workflow a second time inside the same program after deleting the results. Round 7: a joined in-port next to the streamed one; nothing left behind by the second run. distinct = event-log hash; non-trivial = >=2 tasks, >=1 non-default choice",
		Run: func(c *Case) Verdict {
			w := streamWF(c)
			c.Sample = sample(w)
			ex := Eval(w)
			pipeCap := []int{64, 16, 32, 256}[c.Tape.Choose(simrt.StGen, 4, 0)]
			again := c.Tape.Choose(simrt.StGen, 3, 0) == 1
			// a third of the cases on an otherwise idle machine: the clock advances only
			// when no goroutine can run, and every command lasts at least 1 ms. A
			// consumer whose command ends LATER (in simulated time) than its producer's
			// then builds its record after the producer's zero-time bookkeeping - the
			// window of known finding F-C17-1 is closed, the audit link must be there
			idle := c.Tape.Choose(simrt.StGen, 3, 0) == 1
			o1 := IncOpts{KillAt: -1, Strategy: strategyOf(c.Tape), Trace: c.Trace, PipeCap: pipeCap}
			if idle {
				o1.NoEarlyTimers = true
				o1.MinDur = 1e6
				c.Probe("idle-machine-mode")
			}
			inc := RunInc(w, c.Tape, nil, 0, o1)
			c.Absorb(inc)
			if v, ok := inconclusiveEnd(inc); ok {
				return v
			}
			if inc.Sim.End == simrt.EndDeadlock {
				return Viol("stream-deadlock", deadlockSig(inc), "streaming workflow with enough slots never returns: %s", endDesc(inc))
			}
			if v := returnOracle(inc, ex); v.Status != "ok" {
				return v
			}
			// nothing at the streamed path, no FIFO, at the instant Run returned
			files := WorkFiles(inc.RT.ReturnSnap)
			for p := range ex.StreamPaths {
				if e, ok := files[p]; ok {
					return Viol("stream-file-left", "", "streamed output %s exists as %v after Run returned", p, e.Kind)
				}
				if _, ok := files[p+".fifo"]; ok {
					return Viol("fifo-left", "", "FIFO %s.fifo left behind after Run returned", p)
				}
			}
			if v := flowOracle(inc, ex); v.Status != "ok" {
				return v
			}
			if idle {
				exitNS := map[string]int64{}
				for _, e := range inc.Sim.Shell.Trace {
					if e.Kind == "exit" && e.Code == 0 {
						exitNS[e.Key] = e.NS
					}
				}
				for _, t := range ex.Tasks {
					if t.Proc != "cons" && t.Proc != "cons2" {
						continue
					}
					sp := t.Ins["a"].Path
					var prod *RTask
					for _, p := range ex.Tasks {
						for _, op := range p.Outs {
							if p.Proc == "prod" && op == sp {
								prod = p
							}
						}
					}
					tc, ok1 := exitNS[t.Key]
					if prod == nil || !ok1 {
						continue
					}
					tp, ok2 := exitNS[prod.Key]
					if !ok2 || tc <= tp {
						continue
					}
					c.Probe("consumer-ends-after-producer-on-idle-machine")
					r, err := readAudit(inc.Sim.FS.Root, Abs(t.Outs["o0"]))
					if err != nil {
						return Viol("audit-unreadable", "", "%v", err)
					}
					if up := r.Upstream[sp]; up == nil || up.ProcessName != "prod" {
						got := "no record"
						if up != nil {
							got = fmt.Sprintf("process %q, command %q", up.ProcessName, up.Command)
						}
						return Viol("stream-audit-link", "idle-machine", "the command of consumer task %s ended %d ns after the command of its producer %s (idle machine: nothing else could delay the producer's bookkeeping), yet %s.audit.json names as upstream of %s: %s", t.Key, tc-tp, prod.Key, t.Outs["o0"], sp, got)
					}
				}
			}
			if v := auditOracle(inc.Sim.FS.Root, ex, instsByKey(inc)); v.Status != "ok" {
				if strings.HasPrefix(v.Clause, "audit-") && (strings.Contains(v.Detail, ".prod.s]") || strings.Contains(v.Detail, ".prod.s2]")) {
					v.Sig = "stream-consumer-bookkeeping-first"
				}
				if !c.Known(v) {
					return v
				}
			}
			if !again && c.Tape.Choose(simrt.StGen, 4, 0) == 1 {
				// the same PROGRAM runs the workflow a second time after every result
				// was deleted (library state of the first run is still there): the
				// items stream through the same FIFO paths again
				w2 := *w
				var del []string
				for p := range ex.Files {
					if !ex.Extras[p] && ex.Owner[p] != nil && !ex.StreamPaths[p] {
						del = append(del, p)
					}
				}
				sort.Strings(del)
				w2.Rounds = [][]string{del}
				c.Fault("second-round-in-one-program")
				incR := RunInc(&w2, c.Tape, nil, 0, o1)
				c.Absorb(incR)
				if v, ok := inconclusiveEnd(incR); ok {
					return v
				}
				if !completedOK(incR) {
					return Viol("stream-second-round", "end="+incR.Sim.End.String(), "a program that runs the streaming workflow, deletes the results and runs it again does not complete: %s", endDesc(incR))
				}
				if cl, d := checkFinalFiles(incR.Sim.FS.Root, ex, false); cl != "" {
					return Viol("stream-second-round/"+cl, "", "after the second round in one program: %s", d)
				}
				for p := range ex.StreamPaths {
					if _, ok := WorkFiles(incR.Sim.FS.Root)[p]; ok {
						return Viol("stream-file-left", "second-round", "streamed output %s exists as a file after the second round", p)
					}
				}
				return OK()
			}
			if again {
				c.Fault("second-run")
				before := inc.Sim.FS.Snapshot()
				inc2 := RunInc(w, c.Tape, before, inc.Sim.FS.NextIno, IncOpts{KillAt: -1, Strategy: strategyOf(c.Tape), Trace: c.Trace, PipeCap: pipeCap})
				c.Absorb(inc2)
				if v, ok := inconclusiveEnd(inc2); ok {
					return v
				}
				if !completedOK(inc2) {
					sig := "end=" + inc2.Sim.End.String()
					if inc2.Sim.End == simrt.EndDeadlock && strings.Contains(inc2.Sim.DeadlockString(), "open(O_WRONLY) of fifo") {
						sig = "rerun-of-completed-stream-pair"
						for _, o := range w.NodeByName("prod").Outs {
							if !o.Stream {
								// the producer also has an ordinary output, which exists: it must
								// have been skipped like its consumer (not the known finding)
								sig = "rerun-blocks-although-producer-has-an-existing-ordinary-output"
							}
						}
					}
					return Viol("stream-rerun-no-termination", sig, "second run of a completed streaming workflow does not terminate normally: %s", endDesc(inc2))
				}
				if left := Leftovers(inc2.Sim.FS.Root); len(left) > 0 {
					return Viol("fifo-left", "second-run", "the second run of the completed streaming workflow returned but left behind: %v", left)
				}
				for _, t := range ex.Tasks {
					if t.Proc != "cons" && t.Proc != "post" && t.Proc != "cons2" {
						continue
					}
					for _, p := range t.Outs {
						a, _ := idOf(before, Abs(p))
						b, ok := idOf(inc2.Sim.FS.Root, Abs(p))
						if !ok || a != b {
							return Viol("stream-rerun-modified", "", "second run changed consumer output %s: %v -> %v", p, short(a), short(b))
						}
					}
				}
			}
			return OK()
		}})
}

// --- C18 ---------------------------------------------------------------------------------

func init() {
	Register(&Check{ID: "C18", Level: "exploration",
		Rule: "one case = source (0..6 files; thorough: up to 140, beyond the default buffer) -> optional 1:1 process (durations vary upstream timing) -> StreamToSubStream -> process with a joined in-port {i:x|join:SEP} (optionally a second joined in-port fed by its own sub-stream, and a second occurrence of the placeholder with a path modifier basename / %.txt / s/a/b/), SEP in {space , : + '.o0,' 'txt+'}, arrival order optionally reversed, bufsize in {default,1,2,3} (so the sub-stream is often longer than the buffer), under one tape-chosen schedule. Oracle: exactly one start of the joining process; the member list the command received (split at SEP) names all files of the sub-stream in arrival order, each resolving from the task's working directory to the member file; the literal SEP-joined string appears in the executed script; audit Upstream keys = member paths (full recursive audit comparison); the modified occurrence has one entry per member, in order, each the modified member path; output bytes = reference. Round 6: two producers into one sub-stream; an output named after the joined port; a parameter port next to the joined port. Round 7: the carrier passes a tagging component. distinct = event-log hash; non-trivial = >=2 tasks or >=2 members, >=1 non-default choice",
		Run: func(c *Case) Verdict {
			t := c.Tape
			w := &WF{Name: "wf", Sources: map[string]string{}}
			counts := itemCounts
			if c.Tier == "thorough" {
				counts = append(append([]int{}, itemCounts...), 9, 17, 130, 140)
			}
			n := counts[t.Choose(simrt.StGen, len(counts), 0)]
			// (members in the working directory, in a sub-directory, given by absolute path)
			dir := []string{"", "data/", "/abs/in/"}[t.Choose(simrt.StGen, 3, 0)]
			src := srcNode(w, "src0", n, dir)
			if t.Choose(simrt.StGen, 2, 0) == 1 {
				// arrival order different from the lexicographic order of the paths
				f := w.Nodes[src].Files
				for i, j := 0, len(f)-1; i < j; i, j = i+1, j-1 {
					f[i], f[j] = f[j], f[i]
				}
			}
			up := Edge{src, "out"}
			subFrom := []Edge{up}
			unordered := false
			switch t.Choose(simrt.StGen, 5, 0) {
			case 4:
				// two different upstream processes feed the gathering component: the
				// source directly and a process working on a second source - they finish
				// and close at different times (arrival order between them undetermined)
				nb := 1 + t.Choose(simrt.StGen, 3, 0)
				pb := oneToOne(w, "preb", Edge{srcNode(w, "srcb", nb, dir), "out"})
				subFrom = []Edge{up, {pb, "o0"}}
				unordered = true
				c.Probe("substream-fed-by-two-processes")
			case 1, 2:
				up = Edge{oneToOne(w, "pre", up), "o0"}
				subFrom = []Edge{up}
			case 3:
				// two members of the sub-stream stem from ONE upstream task: both
				// out-ports of a two-output process feed the gathering component
				// (their relative arrival order is not determined)
				pi := addNode(w, Node{Name: "pre", Kind: KProc, Cores: 1,
					Ins:  []InSpec{{Name: "a", From: []Edge{up}}},
					Outs: []OutSpec{{Name: "o0", Pattern: "{i:a|basename}.pre.o0"}, {Name: "o1", Pattern: "{i:a|basename}.pre.o1"}}})
				subFrom = []Edge{{pi, "o0"}, {pi, "o1"}}
				unordered = n > 0
			}
			sub := addNode(w, Node{Name: "sub", Kind: KStreamToSub, Ins: []InSpec{{Name: "in", From: subFrom}}, Outs: []OutSpec{{Name: "substream"}}})
			// separators incl. multi-character ones that share characters with the end of the member paths
			sep := []string{" ", ",", ":", "+", ".o0,", "txt+"}[t.Choose(simrt.StGen, 6, 0)]
			carrier := Edge{sub, "substream"}
			carrierTagged := false
			if t.Choose(simrt.StGen, 5, 0) == 1 {
				carrierTagged = true
				// the sub-stream carrier passes a tagging component on its way to the
				// joined port (the only way to give the joining task a tag)
				tg := addNode(w, Node{Name: "tagc", Kind: KMapToTags, TagKey: "grp",
					Ins: []InSpec{{Name: "in", From: []Edge{carrier}}}, Outs: []OutSpec{{Name: "out"}}})
				carrier = Edge{tg, "out"}
				c.Probe("carrier-through-a-tagger")
			}
			joinIns := []InSpec{{Name: "x", From: []Edge{carrier}, Join: true, Sep: sep}}
			if t.Choose(simrt.StGen, 3, 0) == 1 {
				// a second joined in-port on the same process, fed by its own sub-stream
				n2 := itemCounts[t.Choose(simrt.StGen, 5, 0)]
				sub2 := addNode(w, Node{Name: "sub2", Kind: KStreamToSub, Ins: []InSpec{{Name: "in", From: []Edge{{srcNode(w, "src1", n2, ""), "out"}}}}, Outs: []OutSpec{{Name: "substream"}}})
				joinIns = append(joinIns, InSpec{Name: "y", From: []Edge{{sub2, "substream"}}, Join: true, Sep: sep})
			}
			joinMod := ""
			if sep != " " && t.Choose(simrt.StGen, 3, 0) == 1 {
				// the same port a second time, with a path modifier
				joinMod = []string{"basename", "%.txt", "s/src/SRC/"}[t.Choose(simrt.StGen, 3, 0)]
			}
			jn := Node{Name: "join", Kind: KProc, Cores: 1, JoinMod: joinMod,
				Ins:  joinIns,
				Outs: []OutSpec{{Name: "o0", Pattern: "joined.join.o0"}}}
			// the output is named after the joined in-port itself (the random path of
			// the sub-stream carrier: the reference cannot predict the name, so only
			// the joining task itself is judged then)
			nameFromJoined := t.Choose(simrt.StGen, 5, 0) == 1
			if nameFromJoined {
				jn.Outs[0].Pattern = "{i:x|basename}.join.o0"
			} else if t.Choose(simrt.StGen, 4, 0) == 1 {
				// a parameter port next to the joined port, with as many or more values
				// than there are sub-streams (one): still exactly one task
				ps := ParamSpec{Name: "p"}
				for i := 0; i < 1+t.Choose(simrt.StGen, 3, 0); i++ {
					ps.Vals = append(ps.Vals, fmt.Sprintf("pv%d", i))
				}
				jn.Params = []ParamSpec{ps}
				jn.Outs[0].Pattern = "joined.{p:p}.join.o0"
				c.Probe("joined-port-next-to-a-parameter-port")
			}
			j := addNode(w, jn)
			if !nameFromJoined && len(jn.Params) == 0 && t.Choose(simrt.StGen, 2, 0) == 1 {
				oneToOne(w, "post", Edge{j, "o0"})
			}
			second := t.Choose(simrt.StGen, 3, 0) == 1
			if second {
				// a second, independent joining process: both expand their
				// placeholders at about the same time
				nq := 1 + t.Choose(simrt.StGen, 5, 0)
				subq := addNode(w, Node{Name: "subq", Kind: KStreamToSub, Ins: []InSpec{{Name: "in", From: []Edge{{srcNode(w, "srcq", nq, ""), "out"}}}}, Outs: []OutSpec{{Name: "substream"}}})
				addNode(w, Node{Name: "jb", Kind: KProc, Cores: 1,
					Ins:  []InSpec{{Name: "x", From: []Edge{{subq, "substream"}}, Join: true, Sep: sep}},
					Outs: []OutSpec{{Name: "o0", Pattern: "joinedb.jb.o0"}}})
			}
			w.MaxTasks = 1 + t.Choose(simrt.StGen, 4, 0)
			w.Bufsize = bufsizeOf(t)
			c.Sample = sample(w)
			ex := Eval(w)
			inc := RunInc(w, c.Tape, nil, 0, IncOpts{KillAt: -1, Strategy: strategyOf(c.Tape), Trace: c.Trace})
			c.Absorb(inc)
			if n >= 2 {
				c.Tasks = max(c.Tasks, 2)
			}
			if n > 128 || (w.Bufsize > 0 && n > w.Bufsize) {
				c.Probe("substream-longer-than-buffer")
			}
			if v, ok := inconclusiveEnd(inc); ok {
				return v
			}
			if inc.Sim.End == simrt.EndDeadlock {
				return Viol("join-deadlock", deadlockSig(inc), "workflow with a joined in-port never returns: %s", endDesc(inc))
			}
			var joins []*simrt.OpInst
			for _, o := range inc.Sim.Shell.Insts {
				if o.Name == "join" {
					joins = append(joins, o)
				}
			}
			if len(joins) != 1 {
				return Viol("join-task-count", "", "the joining process ran %d tasks for one sub-stream (want exactly 1): %s", len(joins), endDesc(inc))
			}
			o := joins[0]
			var want []string
			for _, tk := range ex.Tasks {
				if tk.Proc == "join" {
					for _, port := range []string{"x", "y"} {
						for _, m := range tk.Joined[port] {
							want = append(want, Abs(m.Path))
						}
					}
				}
			}
			var got []string
			for _, m := range o.Joined {
				if strings.HasPrefix(m, "/") {
					got = append(got, cleanPath(m))
				} else {
					got = append(got, cleanPath(o.Cwd+"/"+m))
				}
			}
			if unordered {
				// compare as multisets: sort both (port y, if any, stays ordered behind x)
				nx := 0
				for _, tk := range ex.Tasks {
					if tk.Proc == "join" {
						nx = len(tk.Joined["x"])
					}
				}
				if nx <= len(got) && nx <= len(want) {
					sort.Strings(got[:nx])
					sort.Strings(want[:nx])
				}
			}
			if strings.Join(got, " ") != strings.Join(want, " ") {
				return Viol("join-members", "", "joined placeholder expanded to %v (resolved from %s: %v); the sub-stream was %v", o.Joined, o.Cwd, got, want)
			}
			if joinMod != "" {
				// with a modifier: still one entry per member, in arrival order, each the
				// modified member path (resolution is not required of a modified path)
				nx := 0
				for _, tk := range ex.Tasks {
					if tk.Proc == "join" {
						nx = len(tk.Joined["x"])
					}
				}
				var wantMod []string
				for _, m := range want[:nx] {
					rel := strings.TrimPrefix(m, "/work/")
					switch joinMod {
					case "basename":
						rel = rel[strings.LastIndex(rel, "/")+1:]
					case "%.txt":
						rel = strings.TrimSuffix(rel, ".txt")
					case "s/src/SRC/":
						rel = strings.ReplaceAll(rel, "src", "SRC")
					}
					if !strings.HasPrefix(rel, "/") {
						rel = "../" + rel // (a path that is still absolute after the modifier stays as it is)
					}
					wantMod = append(wantMod, rel)
				}
				gotNote := ""
				if len(o.Notes) > 0 {
					gotNote = o.Notes[0]
				}
				if unordered {
					g := strings.Split(gotNote, sep)
					sort.Strings(g)
					gotNote = strings.Join(g, sep)
					sort.Strings(wantMod)
				}
				if nx > 0 && gotNote != strings.Join(wantMod, sep) {
					return Viol("join-modifier", "", "{i:x|join:%s|%s} expanded to %q; the sub-stream with the modifier applied to each member is %q", sep, joinMod, gotNote, strings.Join(wantMod, sep))
				}
			}
			// per joined port: the members as written, joined by SEP, appear literally in the script
			off := 0
			for _, tk := range ex.Tasks {
				if tk.Proc != "join" {
					continue
				}
				for _, port := range []string{"x", "y"} {
					n := len(tk.Joined[port])
					if n > 0 && off+n <= len(o.Joined) && !strings.Contains(o.Script, strings.Join(o.Joined[off:off+n], sep)) {
						return Viol("join-separator", "", "the executed script %q does not contain the members of port %s joined by %q", o.Script, port, sep)
					}
					off += n
				}
			}
			if second {
				var jbs []*simrt.OpInst
				for _, oi := range inc.Sim.Shell.Insts {
					if oi.Name == "jb" {
						jbs = append(jbs, oi)
					}
				}
				if len(jbs) != 1 {
					return Viol("join-task-count", "", "the second joining process ran %d tasks for one sub-stream (want exactly 1): %s", len(jbs), endDesc(inc))
				}
				var wantB, gotB []string
				for _, tk := range ex.Tasks {
					if tk.Proc == "jb" {
						for _, m := range tk.Joined["x"] {
							wantB = append(wantB, Abs(m.Path))
						}
					}
				}
				for _, m := range jbs[0].Joined {
					gotB = append(gotB, cleanPath(jbs[0].Cwd+"/"+m))
				}
				if strings.Join(gotB, " ") != strings.Join(wantB, " ") {
					return Viol("join-members", "", "second joining process: placeholder expanded to %v (resolved: %v); its sub-stream was %v", jbs[0].Joined, gotB, wantB)
				}
			}
			if nameFromJoined || len(jn.Params) > 0 || carrierTagged {
				// (a tag on the carrier's random path is not predicted by the reference)
				if !completedOK(inc) {
					return Viol("join-no-completion", "", "workflow with a joined in-port did not complete: %s", endDesc(inc))
				}
				return OK()
			}
			if unordered {
				// the reference fixes one of the possible arrival orders: task key and
				// bytes of the joining task are not comparable; the audit record is
				if !completedOK(inc) {
					return Skipped(Viol("no-completion", "", "%s", endDesc(inc)))
				}
			} else if v := flowOracle(inc, ex); v.Status != "ok" {
				// only the joining task's own output is this property's business
				if v.Clause == "wrong-content" && strings.Contains(v.Detail, "joined.join.o0 ") {
					return v
				}
				return foreign(v)
			}
			if v := auditOracle(inc.Sim.FS.Root, ex, instsByKey(inc)); v.Status != "ok" {
				if v.Clause == "audit-upstream-keys" && strings.HasPrefix(v.Detail, "joined.join.o0.audit.json:") {
					return v
				}
				return foreign(v)
			}
			return OK()
		}})
}

// --- C19 ---------------------------------------------------------------------------------

func zipConsumer(w *WF, name string, ups []Edge, ports []string) int {
	n := Node{Name: name, Kind: KProc, Cores: 1}
	pat := ""
	for i, p := range ports {
		n.Ins = append(n.Ins, InSpec{Name: p, From: []Edge{ups[i]}})
		if i > 0 {
			pat += "."
		}
		pat += "{i:" + p + "|basename}"
	}
	n.Outs = []OutSpec{{Name: "o0", Pattern: pat + "." + name + ".o0"}}
	return addNode(w, n)
}

func paramConsumer(w *WF, name string, ups []Edge, ports []string) int {
	n := Node{Name: name, Kind: KProc, Cores: 1}
	pat := name
	for i, p := range ports {
		e := ups[i]
		n.Params = append(n.Params, ParamSpec{Name: p, From: &e})
		pat += ".{p:" + p + "}"
	}
	n.Outs = []OutSpec{{Name: "o0", Pattern: pat + ".o0"}}
	return addNode(w, n)
}

// globExpected: independent glob evaluation over the set of source paths.
func globExpected(pattern string, files []string) []string {
	var out []string
	pp := strings.Split(pattern, "/")
	for _, f := range files {
		fp := strings.Split(f, "/")
		if len(fp) != len(pp) {
			continue
		}
		ok := true
		for i := range pp {
			m, err := path.Match(pp[i], fp[i])
			if err != nil || !m {
				ok = false
			}
		}
		if ok {
			out = append(out, f)
		}
	}
	sort.Strings(out)
	return out
}

func componentCase(c *Case) (*WF, string) { return componentCaseKind(c, "") }

// componentCaseWellFormed: as componentCase, for checks that need the workflow
// to complete (no path of a file that does not exist).
func componentCaseWellFormed(c *Case) (*WF, string) {
	w, kind := componentCaseKind(c, "")
	if w.Ghost != "" {
		w.Sources[w.Ghost] = "source " + w.Ghost + "\n"
		w.Ghost = ""
	}
	w.Rounds = nil // (no second round inside the program: the reference describes one run)
	if g := w.NodeByName("glob"); g != nil && g.Dup {
		// overlapping patterns with a tagging consumer can stop on the unchanged tree
		// (known finding F-C19-1, C19's to report): keep the first pattern only and
		// the usual command process as consumer
		var present []string
		for p := range w.Sources {
			present = append(present, p)
		}
		sort.Strings(present)
		g.Dup = false
		g.Globs = g.Globs[:1]
		g.Files = globExpected(g.Globs[0], present)
		for i := range w.Nodes {
			if w.Nodes[i].Name == "use" {
				gi := w.Nodes[i].Ins[0].From[0]
				w.Nodes[i] = Node{Name: "use", Kind: KProc, Cores: 1,
					Ins:  []InSpec{{Name: "a", From: []Edge{gi}}},
					Outs: []OutSpec{{Name: "o0", Pattern: "{i:a}.use.o0"}}}
			}
		}
	}
	return w, kind
}

// componentCaseKind: force != "" fixes the kind of component (the draw is made all the same).
func componentCaseKind(c *Case, force string) (*WF, string) {
	t := c.Tape
	w := &WF{Name: "wf", Sources: map[string]string{}}
	w.MaxTasks = 1 + t.Choose(simrt.StGen, 4, 0)
	w.Bufsize = bufsizeOf(t)
	buf := w.Bufsize
	if buf == 0 {
		buf = 128
	}
	kinds := []string{"filecomb", "paramcomb", "selector", "splitter", "concat", "globber", "fileparams", "cmdparams", "sources", "globdep"}
	kind := kinds[t.Choose(simrt.StGen, len(kinds), 0)]
	if force != "" {
		kind = force
	}
	ports := []string{"a", "b", "c", "d"}
	switch kind {
	case "globdep":
		return globDepWF(c), kind
	case "filecomb":
		k := 1 + t.Choose(simrt.StGen, 4, 0)
		shared := k >= 2 && t.Choose(simrt.StGen, 3, 0) == 1
		var ups []Edge
		var sharedEdge Edge
		for i := 0; i < k; i++ {
			n := itemCounts[t.Choose(simrt.StGen, 5, 0)]
			if k == 4 && n > 3 {
				n = 3 // (keeps the product at <= 81 tuples)
			}
			if shared {
				if n > buf {
					n = buf
				}
				if i == 0 {
					s := srcNode(w, "srcS", n, "")
					sharedEdge = Edge{s, "out"}
					if t.Choose(simrt.StGen, 2, 0) == 1 {
						sharedEdge = Edge{oneToOne(w, "preS", sharedEdge), "o0"}
					}
				}
				ups = append(ups, sharedEdge)
				continue
			}
			s := srcNode(w, "src"+ports[i], n, "")
			e := Edge{s, "out"}
			if t.Choose(simrt.StGen, 2, 0) == 1 {
				e = Edge{oneToOne(w, "pre"+ports[i], e), "o0"}
			}
			ups = append(ups, e)
		}
		// the sources list their files in a tape-chosen order (arrival order is
		// then not the lexicographic order of the paths)
		for i := range w.Nodes {
			if fs := w.Nodes[i].Files; w.Nodes[i].Kind == KFileSrc && len(fs) > 1 && t.Choose(simrt.StGen, 2, 0) == 1 {
				for a := len(fs) - 1; a > 0; a-- {
					b := t.Choose(simrt.StGen, a+1, 0)
					fs[a], fs[b] = fs[b], fs[a]
				}
			}
		}
		cmb := Node{Name: "comb", Kind: KFileCombinator, Rec: true}
		var outs []Edge
		for i := 0; i < k; i++ {
			cmb.Ins = append(cmb.Ins, InSpec{Name: ports[i], From: []Edge{ups[i]}})
			cmb.Outs = append(cmb.Outs, OutSpec{Name: ports[i]})
		}
		ci := addNode(w, cmb)
		for i := 0; i < k; i++ {
			outs = append(outs, Edge{ci, ports[i]})
		}
		zipConsumer(w, "use", outs, ports[:k])
	case "paramcomb":
		k := 1 + t.Choose(simrt.StGen, 4, 0)
		cmb := Node{Name: "pcomb", Kind: KParamCombinator}
		// (all ports fed by ONE ParamSource: its out-port fans out to several ports)
		sharedP := k >= 2 && t.Choose(simrt.StGen, 3, 0) == 1
		sharedNode := -1
		for i := 0; i < k; i++ {
			n := itemCounts[t.Choose(simrt.StGen, 5, 0)]
			if k == 4 && n > 3 {
				n = 3
			}
			ps := ParamSpec{Name: ports[i]}
			if sharedP {
				if sharedNode < 0 {
					if n > buf {
						n = buf
					}
					var sv []string
					for x := 0; x < n; x++ {
						sv = append(sv, fmt.Sprintf("s%d", x))
					}
					sharedNode = addNode(w, Node{Name: "psS", Kind: KParamSrc, Vals: sv})
					c.Probe("paramcombinator-ports-share-one-source")
				}
				ps.From = &Edge{sharedNode, "out"}
				cmb.Params = append(cmb.Params, ps)
				continue
			}
			var vals []string
			for x := 0; x < n; x++ {
				vals = append(vals, fmt.Sprintf("%s%d", ports[i], x))
			}
			if t.Choose(simrt.StGen, 2, 0) == 1 {
				s := addNode(w, Node{Name: "ps" + ports[i], Kind: KParamSrc, Vals: vals})
				ps.From = &Edge{s, "out"}
			} else {
				ps.Vals = vals
			}
			cmb.Params = append(cmb.Params, ps)
		}
		ci := addNode(w, cmb)
		var outs []Edge
		for i := 0; i < k; i++ {
			outs = append(outs, Edge{ci, ports[i]})
		}
		paramConsumer(w, "use", outs, ports[:k])
	case "selector":
		k := 1 + t.Choose(simrt.StGen, 4, 0)
		// (also streams longer than any internal buffering of 16 sets)
		n := append(append([]int{}, itemCounts...), 20, 40)[t.Choose(simrt.StGen, 8, 0)]
		if k == 4 && n > 20 {
			n = 20
		}
		s := srcNode(w, "src0", n, "")
		sel := Node{Name: "sel", Kind: KSelector}
		var ups []Edge
		for i := 0; i < k; i++ {
			e := Edge{s, "out"}
			if i > 0 || t.Choose(simrt.StGen, 2, 0) == 1 {
				e = Edge{oneToOne(w, "pre"+ports[i], Edge{s, "out"}), "o0"}
			}
			ups = append(ups, e)
		}
		for i := 0; i < k; i++ {
			sel.Ins = append(sel.Ins, InSpec{Name: ports[i], From: []Edge{ups[i]}})
			sel.Outs = append(sel.Outs, OutSpec{Name: ports[i]})
		}
		// predicate: tape-chosen accept mask per port and index
		ex0 := Eval(w)
		for i := 0; i < k; i++ {
			st := ex0.Streams[w.Nodes[ups[i].Node].Name+"."+ups[i].Port]
			for _, it := range st.Items {
				if t.Choose(simrt.StGen, 3, 0) != 1 {
					sel.Files = append(sel.Files, it.Path)
				}
			}
		}
		si := addNode(w, sel)
		var outs []Edge
		for i := 0; i < k; i++ {
			outs = append(outs, Edge{si, ports[i]})
		}
		zipConsumer(w, "use", outs, ports[:k])
	case "splitter":
		nf := 1 + t.Choose(simrt.StGen, 2, 0)
		src := Node{Name: "src0", Kind: KFileSrc}
		big := t.Choose(simrt.StGen, 6, 0) == 1
		for i := 0; i < nf; i++ {
			lines := t.Choose(simrt.StGen, 8, 0)
			if big {
				// (more than a scanner's initial 4 KiB buffer, many lines)
				lines = 150 + 50*t.Choose(simrt.StGen, 4, 0)
			}
			p := fmt.Sprintf("lines%d.txt", i)
			var b strings.Builder
			for l := 0; l < lines; l++ {
				fmt.Fprintf(&b, "file %d line %d\n", i, l)
				if big {
					b.WriteString(strings.Repeat("-", l%37) + "\n")
				}
			}
			src.Files = append(src.Files, p)
			w.Sources[p] = b.String()
		}
		if t.Choose(simrt.StGen, 6, 0) == 1 {
			// one line longer than bufio.Scanner's 64 KiB token limit: failing loudly
			// is fine, silently dropping the rest of the file is not
			f := src.Files[t.Choose(simrt.StGen, len(src.Files), 0)]
			w.Sources[f] += strings.Repeat("L", 70000) + "\nlast line\n"
		}
		s := addNode(w, src)
		splitLines := 1 + t.Choose(simrt.StGen, 3, 0)
		if big {
			splitLines = 40 + 30*t.Choose(simrt.StGen, 3, 0)
		}
		sp := addNode(w, Node{Name: "split", Kind: KSplitter, SplitLines: splitLines, Rec: true,
			Ins: []InSpec{{Name: "file", From: []Edge{{s, "out"}}}}, Outs: []OutSpec{{Name: "split_file"}}})
		oneToOne(w, "use", Edge{sp, "split_file"})
	case "concat":
		n := itemCounts[t.Choose(simrt.StGen, 6, 0)]
		s := srcNode(w, "src0", n, "")
		e := Edge{s, "out"}
		if t.Choose(simrt.StGen, 2, 0) == 1 {
			e = Edge{oneToOne(w, "pre", e), "o0"}
		}
		// sometimes an input larger than the buffer sizes an implementation is
		// likely to copy with (page, io.Copy's 32 KiB, 64 KiB, 1 MiB)
		if big := []int{0, 0, 0, 0, 4096 + 7, 32768 + 100, 65536 + 1, 1<<20 + 333, 2<<20 + 5}[t.Choose(simrt.StGen, 9, 0)]; big > 0 && n > 0 {
			if pre := w.NodeByName("pre"); pre != nil {
				pre.PadTo = big
			} else {
				f := w.Nodes[s].Files[t.Choose(simrt.StGen, n, 0)]
				w.Sources[f] = string(simrt.OpContent("bigsource", nil, []string{f}, 0, big))
			}
		}
		from := []Edge{e}
		if t.Choose(simrt.StGen, 3, 0) == 1 {
			s2 := srcNode(w, "src1", 1+t.Choose(simrt.StGen, 2, 0), "")
			from = append(from, Edge{s2, "out"})
		}
		groupBy := ""
		if len(from) == 1 && t.Choose(simrt.StGen, 4, 0) == 1 {
			// GroupByTag: inputs are tagged with one of 1..3 group names upstream and
			// concatenated per group
			groupBy = "grp"
			tg := addNode(w, Node{Name: "tagg", Kind: KMapToTags, TagKey: "grp", TagGroups: 1 + t.Choose(simrt.StGen, 3, 0),
				// (sometimes tagged and untagged inputs arrive mixed)
				TagSkip: []int{0, 2, 3}[t.Choose(simrt.StGen, 3, 0)],
				Ins:     []InSpec{{Name: "in", From: from}}, Outs: []OutSpec{{Name: "out"}}})
			from = []Edge{{tg, "out"}}
		}
		cc := addNode(w, Node{Name: "cat", Kind: KConcat, OutPath: "concat/all.txt", Rec: true, GroupBy: groupBy,
			Ins: []InSpec{{Name: "in", From: from}}, Outs: []OutSpec{{Name: "out"}}})
		oneToOne(w, "use", Edge{cc, "out"})
	case "globber":
		names := []string{"data/a1.txt", "data/a2.txt", "data/b1.txt", "data/b2.dat", "other/a1.txt", "data/ab.txt", "top.txt"}
		var present []string
		for _, nm := range names {
			if t.Choose(simrt.StGen, 3, 0) != 1 {
				present = append(present, nm)
				w.Sources[nm] = "glob source " + nm + "\n"
			}
		}
		// (incl. wildcard-free patterns naming a file that may or may not exist)
		pats := []string{"data/*.txt", "data/a*", "*/a1.txt", "data/?1.txt", "*.txt", "data/[ab]?.*", "nomatch/*", "data/a2.txt", "other/a1.txt", "data/zz.txt"}
		g := Node{Name: "glob", Kind: KGlobber}
		np := 1 + t.Choose(simrt.StGen, 3, 0)
		g.Rec = true
		seen := map[string]bool{}
		// overlapping patterns: a file matched by two patterns is emitted twice. A
		// command process would get two tasks with the same identity, so the
		// consumer is then a tagging component (which takes the same file twice)
		overlap := t.Choose(simrt.StGen, 3, 0) == 1
		if overlap {
			// (only patterns that cannot match the audit files the tagger writes while
			// the component is still globbing)
			pats = []string{"data/*.txt", "*/a1.txt", "data/?1.txt", "*.txt", "data/a2.txt", "other/a1.txt", "data/a*.txt"}
		}
		for i := 0; i < np; i++ {
			p := pats[t.Choose(simrt.StGen, len(pats), 0)]
			if seen[p] {
				continue
			}
			seen[p] = true
			g.Globs = append(g.Globs, p)
			for _, m := range globExpected(p, present) {
				dup := false
				for _, f := range g.Files {
					if f == m {
						dup = true
					}
				}
				if dup && overlap {
					c.Probe("globber-overlapping-patterns")
					dup = false
					g.Dup = true
				}
				if dup {
					// the same file matched by two patterns is emitted twice: the
					// consumer would get two tasks with the same identity - keep
					// the patterns disjoint instead
					g.Globs = g.Globs[:len(g.Globs)-1]
					g.Files = g.Files[:0]
					for _, q := range g.Globs {
						g.Files = append(g.Files, globExpected(q, present)...)
					}
					break
				}
				g.Files = append(g.Files, m)
			}
		}
		g.Outs = []OutSpec{{Name: "out"}}
		gi := addNode(w, g)
		if g.Dup {
			addNode(w, Node{Name: "use", Kind: KMapToTags, TagKey: "seen",
				Ins: []InSpec{{Name: "in", From: []Edge{{gi, "out"}}}}, Outs: []OutSpec{{Name: "out"}}})
			return w, kind
		}
		oneToOne(w, "use", Edge{gi, "out"})
		if len(g.Files) > 0 && t.Choose(simrt.StGen, 4, 0) == 1 {
			// the same program deletes some of the matched files and runs the workflow
			// again: the second run globs the directory as it is then
			var del []string
			for _, f := range g.Files {
				if t.Choose(simrt.StGen, 2, 0) == 1 {
					del = append(del, Abs(f))
				}
			}
			if len(del) > 0 {
				w.Rounds = [][]string{del}
			}
		}
	case "fileparams", "cmdparams":
		n := itemCounts[t.Choose(simrt.StGen, 6, 0)]
		var vals []string
		var b strings.Builder
		// white space is part of a line: empty lines, leading blanks, a trailing tab.
		// Such values cannot appear in a path, so the consumer is then a Go function
		// that reads the parameter with task.Param and names its output after a file
		ws := kind == "fileparams" && n > 0 && t.Choose(simrt.StGen, 3, 0) == 1
		for i := 0; i < n; i++ {
			v := fmt.Sprintf("line%d", i)
			if ws {
				v = []string{"", "  indented" + fmt.Sprint(i), "trailing tab" + fmt.Sprint(i) + "\t", "in ner " + fmt.Sprint(i), "plain" + fmt.Sprint(i)}[t.Choose(simrt.StGen, 5, 0)]
			}
			vals = append(vals, v)
			b.WriteString(v + "\n")
		}
		content := b.String()
		if n > 0 && t.Choose(simrt.StGen, 3, 0) == 1 && vals[n-1] != "" {
			content = content[:len(content)-1] // last line without a terminating newline (an empty last line would vanish with it)
		}
		w.Sources["params.txt"] = content
		nd := Node{Name: "rd", Kind: KFileToParams, FilePath: "params.txt", Vals: vals}
		port := "line"
		if kind == "cmdparams" {
			nd.Kind = KCmdToParams
			port = "param"
			if t.Choose(simrt.StGen, 2, 0) == 1 && n > 0 {
				var cmds []string
				for _, v := range vals {
					cmds = append(cmds, "echo "+v)
				}
				nd.FilePath = strings.Join(cmds, " && ")
			} else {
				nd.FilePath = "cat params.txt"
			}
		}
		ri := addNode(w, nd)
		if ws {
			c.Probe("params-file-with-white-space")
			e := Edge{ri, port}
			fsrc := srcNode(w, "files", n, "")
			addNode(w, Node{Name: "use", Kind: KProc, Cores: 1, Custom: 1, HiddenParams: true,
				Ins:    []InSpec{{Name: "a", From: []Edge{{fsrc, "out"}}}},
				Params: []ParamSpec{{Name: "x", From: &e}},
				Outs:   []OutSpec{{Name: "o0", Pattern: "{i:a}.use.o0"}}})
			return w, kind
		}
		paramConsumer(w, "use", []Edge{{ri, port}}, []string{"x"})
	default: // sources
		n := itemCounts[t.Choose(simrt.StGen, 7, 0)]
		s := srcNode(w, "src0", n, "")
		var vals []string
		for i := 0; i < n; i++ {
			vals = append(vals, fmt.Sprintf("v%d", i))
		}
		ps := addNode(w, Node{Name: "psrc", Kind: KParamSrc, Vals: vals})
		e := Edge{ps, "out"}
		addNode(w, Node{Name: "use", Kind: KProc, Cores: 1, Rec: true,
			Ins:    []InSpec{{Name: "a", From: []Edge{{s, "out"}}}},
			Params: []ParamSpec{{Name: "x", From: &e}},
			Outs:   []OutSpec{{Name: "o0", Pattern: "{i:a}.{p:x}.use.o0"}}})
		w.Nodes[s].Rec = true
		if n > 0 && t.Choose(simrt.StGen, 4, 0) == 1 {
			// one of the given paths names a file that does not exist: the source has
			// to pass it on like the others (its consumer then fails) - it must not
			// quietly leave it out
			fs := w.Nodes[s].Files
			k := t.Choose(simrt.StGen, len(fs), 0)
			delete(w.Sources, fs[k])
			w.Ghost = fs[k]
		}
	}
	return w, kind
}

// combinatorOrder: on every out-port of the FileCombinator "comb" the files
// appear (first occurrence) in the order in which they arrived on the in-port
// of the same name.
func combinatorOrder(w *WF, ex *Expect, inc *Inc) Verdict {
	cmb := w.NodeByName("comb")
	for _, in := range cmb.Ins {
		e := in.From[0]
		var want []string
		for _, it := range ex.Streams[w.Nodes[e.Node].Name+"."+e.Port].Items {
			want = append(want, it.Path)
		}
		var first []string
		seen := map[string]bool{}
		for _, p := range inc.RT.Recorded[recKey("comb", in.Name, "use", in.Name)] {
			if !seen[p] {
				seen[p] = true
				first = append(first, p)
			}
		}
		if len(first) == len(want) && strings.Join(first, " ") != strings.Join(want, " ") {
			return Viol("combinator-order", "filecomb", "FileCombinator port %s: files left (first occurrences) as %v, they arrived as %v", in.Name, first, want)
		}
	}
	return OK()
}

func linesOf(b []byte) int { return strings.Count(string(b), "\n") }

func init() {
	Register(&Check{ID: "C19", Level: "exploration",
		Rule: "one case = one bundled component in a small tape-generated harness workflow under one tape-chosen schedule (incl. map-iteration order, which decides the combinators' 'head' port): FileCombinator / ParamCombinator with 1..4 ports and stream lengths 0..4 (independent upstreams; or one shared upstream with length <= bufsize) feeding a consuming zip process - every element of the Cartesian product exactly once, ports aligned; IPSelectorSync with 1..4 aligned ports and a tape-chosen predicate mask - exactly the all-true tuples; FileSplitter (files of 0..7 lines, 1..3 lines per split) - recorded parts concatenate to the input, no part longer than the limit; Concatenator (inputs of a few bytes up to 2 MiB + remainder, around common copy-buffer sizes) - output = inputs in recorded arrival order, each followed by newline (also with GroupByTag: one output per group value, and with something already at the output path); FileGlobber over a generated tree vs an independent glob evaluation; FileToParamsReader / CommandToParams / FileSource / ParamSource - exactly the given items in order. Round 5: mixed tagged/untagged Concatenator inputs; FileGlobber emission order with 1-3 patterns; FileCombinator arrival order. Round 6: a FileSource path that names no file must not be left out silently. Round 7: large splitter inputs; the globber's second round; a ParamCombinator whose ports share one source. Round 8: overlapping FileGlobber patterns (tagging consumer). distinct = event-log hash; non-trivial = >=2 tasks, >=1 non-default choice",
		Run: func(c *Case) Verdict {
			w, kind := componentCase(c)
			c.Sample = kind + ": " + sample(w)
			c.Probe("component-" + kind)
			ex := Eval(w)
			var root0 *simrt.Inode
			nextIno := 0
			if kind == "concat" && c.Tape.Choose(simrt.StGen, 4, 0) == 1 {
				// something is already at the Concatenator's output path (left by an
				// earlier, possibly interrupted run): the output must still be exactly
				// the inputs of THIS run
				s0, _ := freshFS(c, w)
				stale := []string{"", "stale line from an earlier run\n", "source src0 0\n\n"}[c.Tape.Choose(simrt.StGen, 3, 0)]
				s0.FS.PutFile("/work/concat/all.txt", []byte(stale))
				root0, nextIno = s0.FS.Root, s0.FS.NextIno
				c.Fault("pre-existing")
				c.Sample = "stale output present: " + c.Sample
			}
			inc := RunInc(w, c.Tape, root0, nextIno, IncOpts{KillAt: -1, Strategy: strategyOf(c.Tape), Trace: c.Trace})
			c.Absorb(inc)
			if v, ok := inconclusiveEnd(inc); ok {
				return v
			}
			if inc.Sim.End == simrt.EndDeadlock {
				return Viol("component-deadlock", kind, "workflow around %s never returns: %s", kind, endDesc(inc))
			}
			if w.Ghost != "" {
				c.Fault("missing-source-file")
				if completedOK(inc) {
					n := len(execKeys(inc.Sim.Shell.Trace, "exit", 0))
					return Viol("source-items-dropped", kind, "FileSource was given %v, of which %s does not exist; the workflow reported completion after %d task(s): the path was left out instead of being passed on", w.NodeByName("src0").Files, w.Ghost, n)
				}
				return OK() // (stopping because the consumer cannot read the file is the expected end)
			}
			if !completedOK(inc) {
				if kind == "splitter" && inc.Sim.End == simrt.EndExit {
					for _, content := range w.Sources {
						if strings.Contains(content, strings.Repeat("L", 66000)) {
							c.Probe("splitter-refuses-over-long-line")
							return OK() // (a line beyond the scanner's token limit: refusing is legitimate)
						}
					}
				}
				if g := w.NodeByName("glob"); kind == "globber" && g != nil && g.Dup && inc.Sim.End == simrt.EndExit &&
					strings.Contains(string(inc.Sim.Stderr), "Could not unmarshal audit log file content: ") && strings.Contains(string(inc.Sim.Stderr), "unexpected end of JSON input") {
					// known finding F-C19-1: the second IP of a file that is emitted twice reads
					// the audit file while the tagging component re-writes it (truncate, write)
					return Viol("no-completion", "torn-audit-read", "workflow around %s did not complete: the audit file of a file that is emitted twice was read while a tagging component was re-writing it: %s", kind, endDesc(inc))
				}
				return Viol("no-completion", kind, "workflow around %s did not complete: %s", kind, endDesc(inc))
			}
			root := inc.Sim.FS.Root
			switch kind {
			case "splitter":
				sp := w.NodeByName("split")
				rec := inc.RT.Recorded[recKey("split", "split_file", "use", "a")]
				for _, f := range w.NodeByName("src0").Files {
					var parts []string
					for _, p := range rec {
						if strings.HasPrefix(p, f+".split_") {
							parts = append(parts, p)
						}
					}
					var cat []byte
					seen := map[string]bool{}
					for _, p := range parts {
						if seen[p] {
							return Viol("splitter-duplicate-part", kind, "part %s emitted twice", p)
						}
						seen[p] = true
						id, ok := idOf(root, Abs(p))
						if !ok {
							return Viol("splitter-part-missing", kind, "emitted part %s does not exist", p)
						}
						if l := linesOf([]byte(id.data)); l > sp.SplitLines {
							return Viol("splitter-part-too-long", kind, "part %s has %d lines, limit %d", p, l, sp.SplitLines)
						}
						cat = append(cat, id.data...)
					}
					if string(cat) != w.Sources[f] {
						return Viol("splitter-content", kind, "parts %v of %s concatenate to %q, the input is %q", parts, f, clip(cat), clip([]byte(w.Sources[f])))
					}
				}
				return OK()
			case "concat":
				var arrival []string
				for k, v := range inc.RT.Recorded {
					if strings.HasSuffix(k, "->cat.in") {
						arrival = append(arrival, v...)
					}
				}
				// with two upstream edges the merged arrival order is not recorded:
				// then check content as a multiset of blocks in some order
				id, ok := idOf(root, "/work/concat/all.txt")
				if !ok {
					return Viol("concat-missing", kind, "Concatenator output concat/all.txt missing")
				}
				var blocks []string
				for _, p := range arrival {
					fid, ok := idOf(root, Abs(p))
					if !ok {
						return Viol("concat-input-missing", kind, "recorded input %s missing", p)
					}
					blocks = append(blocks, fid.data+"\n")
				}
				// whoever received an output of the Concatenator read its final bytes
				// (the file must be complete when it is handed downstream)
				for _, oi := range inc.Sim.Shell.Insts {
					if oi.Name != "use" || len(oi.Inputs) == 0 || len(oi.InData) == 0 {
						continue
					}
					fp := cleanPath(oi.Cwd + "/" + oi.Inputs[0])
					if fid, ok := idOf(root, fp); ok && string(oi.InData[0]) != fid.data {
						return Viol("concat-content", kind, "the consumer of %s read %q (%d bytes) when it received the file; the file finally holds %d bytes: it was handed downstream before it was complete", strings.TrimPrefix(fp, "/work/"), clip(oi.InData[0]), len(oi.InData[0]), len(fid.data))
					}
				}
				nEdges := len(w.NodeByName("cat").Ins[0].From)
				if tg := w.NodeByName("tagg"); tg != nil {
					// grouped: one output per group value, each = its members in arrival
					// order; the plain output stays empty
					groups := map[string]string{}
					plain := ""
					for _, p := range arrival {
						fid, _ := idOf(root, Abs(p))
						if g := tagValueFor(tg, p); g != "" {
							groups[g] += fid.data + "\n"
						} else {
							plain += fid.data + "\n"
							c.Probe("concat-untagged-among-tagged")
						}
					}
					if id.data != plain {
						return Viol("concat-content", kind, "GroupByTag: the plain output holds %q; the inputs without the tag, in arrival order, give %q", clip([]byte(id.data)), clip([]byte(plain)))
					}
					for _, g := range sortedKeys(groups) {
						gp := "/work/concat/all.txt.grp_" + g
						gid, ok := idOf(root, gp)
						if !ok {
							return Viol("concat-missing", kind, "GroupByTag: output %s for group %s missing", gp, g)
						}
						if gid.data != groups[g] {
							return Viol("concat-content", kind, "GroupByTag: %s holds %q; the inputs tagged %s in arrival order give %q", gp, clip([]byte(gid.data)), g, clip([]byte(groups[g])))
						}
					}
					wf1 := WorkFiles(root)
					for _, pth := range sortedKeys(wf1) {
						e := wf1[pth]
						if strings.HasPrefix(pth, "/work/concat/all.txt.grp_") && !strings.HasSuffix(pth, ".audit.json") && !strings.Contains(pth, ".use.") && e.Kind == simrt.KFile {
							if _, ok := groups[strings.TrimPrefix(pth, "/work/concat/all.txt.grp_")]; !ok {
								return Viol("concat-content", kind, "GroupByTag: unexpected group output %s", pth)
							}
						}
					}
				} else if nEdges == 1 {
					if id.data != strings.Join(blocks, "") {
						return Viol("concat-content", kind, "Concatenator output (%d bytes) %q; inputs in arrival order give (%d bytes) %q", len(id.data), clip([]byte(id.data)), len(strings.Join(blocks, "")), clip([]byte(strings.Join(blocks, ""))))
					}
				} else {
					rest := id.data
					sort.Slice(blocks, func(i, j int) bool { return len(blocks[i]) > len(blocks[j]) })
					for _, b := range blocks {
						i := strings.Index(rest, b)
						if i < 0 {
							return Viol("concat-content", kind, "Concatenator output %q lacks input block %q", clip([]byte(id.data)), clip([]byte(b)))
						}
						rest = rest[:i] + rest[i+len(b):]
					}
					if rest != "" {
						return Viol("concat-content", kind, "Concatenator output has extra content %q", clip([]byte(rest)))
					}
				}
				// every expected input arrived exactly once
				var want []string
				for _, e := range w.NodeByName("cat").Ins[0].From {
					for _, it := range ex.Streams[w.Nodes[e.Node].Name+"."+e.Port].Items {
						want = append(want, it.Path)
					}
				}
				if m, x := multisetDiff(arrival, want); len(m)+len(x) > 0 {
					return Viol("concat-inputs", kind, "Concatenator received %v, upstream emitted %v", arrival, want)
				}
				return OK()
			case "filecomb":
				if v := combinatorOrder(w, ex, inc); v.Status != "ok" {
					return v
				}
			case "globber":
				// matches are emitted pattern by pattern, each pattern's matches in the
				// (sorted) order filepath.Glob yields them
				got := inc.RT.Recorded[recKey("glob", "out", "use", "a")]
				if w.NodeByName("glob").Dup {
					got = inc.RT.Recorded[recKey("glob", "out", "use", "in")]
					if want := w.NodeByName("glob").Files; strings.Join(got, " ") != strings.Join(want, " ") {
						return Viol("globber-order", kind, "FileGlobber with overlapping patterns %v emitted %v; pattern by pattern the matches are %v", w.NodeByName("glob").Globs, got, want)
					}
					return OK()
				}
				if len(w.Rounds) > 0 {
					want := append([]string{}, w.NodeByName("glob").Files...)
					if len(inc.RT.PreRound) > 0 {
						// the directory as the second round finds it (results of the first
						// round included, the deleted files gone)
						var present []string
						wf2 := WorkFiles(inc.RT.PreRound[0])
						for _, p := range sortedKeys(wf2) {
							e := wf2[p]
							if e.Kind == simrt.KFile {
								present = append(present, strings.TrimPrefix(p, "/work/"))
							}
						}
						for _, pat := range w.NodeByName("glob").Globs {
							want = append(want, globExpected(pat, present)...)
						}
					}
					c.Probe("globber-second-round-after-deletions")
					if strings.Join(got, " ") != strings.Join(want, " ") {
						return Viol("globber-stale", kind, "FileGlobber in two rounds of one program (files %v deleted in between) emitted %v; the directory as it was each time gives %v", w.Rounds[0], got, want)
					}
					return OK()
				}
				if want := w.NodeByName("glob").Files; strings.Join(got, " ") != strings.Join(want, " ") {
					return Viol("globber-order", kind, "FileGlobber with patterns %v emitted %v; pattern by pattern the matches are %v", w.NodeByName("glob").Globs, got, want)
				}
				if len(w.NodeByName("glob").Globs) > 1 {
					c.Probe("globber-several-patterns")
				}
			case "sources":
				got := inc.RT.Recorded[recKey("src0", "out", "use", "a")]
				if strings.Join(got, " ") != strings.Join(w.NodeByName("src0").Files, " ") {
					return Viol("source-order", kind, "FileSource emitted %v, was given %v", got, w.NodeByName("src0").Files)
				}
			}
			return flowOracle(inc, ex)
		}})
}
