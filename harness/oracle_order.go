package harness

import (
	"fmt"
	"sort"
	"strings"

	"verif/simrt"
)

// C08: outputs leave a process in input order; C09: a failing task stops the
// workflow; C16: wiring check and RunTo closure.

var profC08 = Profile{
	MaxProcs: 4, MaxItems: 6, LongStreams: []int{40}, Bufsizes: []int{0, 1, 2, 3}, MaxSlots: 8,
	MultiOut: true, FanIn: true, FanOut: true, Params: true, Zip: true, TwoSources: true, Custom: true,
	// (tagging components pass their items on: in arrival order, tagged or not)
	Taggers: true,
}

// orderOracle compares the sequence recorded on every recorded edge with the
// order the reference prescribes.
func orderOracle(inc *Inc, ex *Expect) Verdict {
	w := ex.WF
	// map: path -> producing task (to find which input an output stems from)
	for ni := range w.Nodes {
		n := &w.Nodes[ni]
		if (n.Kind != KProc && n.Kind != KMapToTags) || !n.Rec || !ex.Active[n.Name] {
			continue
		}
		for _, o := range n.Outs {
			st := ex.Streams[n.Name+"."+o.Name]
			if st == nil {
				continue
			}
			// all recorded edges of this out-port must show the same, correct order
			for k, got := range inc.RT.Recorded {
				if !strings.HasPrefix(k, n.Name+"."+o.Name+"->") {
					continue
				}
				if st.Ordered {
					var want []string
					for _, it := range st.Items {
						want = append(want, it.Path)
					}
					if strings.Join(got, " ") != strings.Join(want, " ") {
						return Viol("out-of-order", "", "edge %s: items arrived as %v, inputs arrived as %v", k, got, want)
					}
					continue
				}
				// fan-in upstream: per upstream edge, relative order is kept
				if len(n.Ins) != 1 {
					continue
				}
				in := n.Ins[0]
				byOut := map[string]*RTask{}
				for _, t := range ex.Tasks {
					if t.Node == ni {
						byOut[t.Outs[o.Name]] = t
					}
				}
				for _, e := range in.From {
					up := ex.Streams[w.Nodes[e.Node].Name+"."+e.Port]
					if up == nil || !up.Ordered {
						continue
					}
					pos := map[string]int{}
					for i, it := range up.Items {
						pos[it.Path] = i
					}
					last := -1
					for _, p := range got {
						t := byOut[p]
						if t == nil {
							continue
						}
						ip := t.Ins[in.Name].Path
						i, ok := pos[ip]
						if !ok {
							continue
						}
						if i < last {
							return Viol("fan-in-order", "", "edge %s: items stemming from upstream %s.%s left in an order different from the one they arrived in: %v", k, w.Nodes[e.Node].Name, e.Port, got)
						}
						last = i
					}
				}
			}
		}
	}
	return OK()
}

func outOfOrderProbe(c *Case, inc *Inc) {
	// did any process finish a later-started task before an earlier one?
	start := map[string][]int{}
	for _, e := range inc.Sim.Shell.Trace {
		if e.Kind == "start" {
			start[e.Name] = append(start[e.Name], e.Seq)
		}
	}
	exitPos := map[int]int{}
	n := 0
	for _, e := range inc.Sim.Shell.Trace {
		if e.Kind == "exit" {
			exitPos[e.Seq] = n
			n++
		}
	}
	for _, seqs := range start {
		for i := 1; i < len(seqs); i++ {
			if exitPos[seqs[i]] < exitPos[seqs[i-1]] {
				c.Probe("task-finished-out-of-order")
				return
			}
		}
	}
}

func init() {
	Register(&Check{ID: "C08", Level: "exploration",
		Rule: "one case = one generated workflow with pass-through recorder components (public component API) on the out-port edges of every command process (other shapes: several sub-stream carriers, FileSplitter parts, IPSelectorSync out-ports, a source listing one file twice, a process with a streamed and an ordinary out-port), 1..8 slots and command durations over 6 orders of magnitude so that later tasks often finish first (probe task-finished-out-of-order); the recorded sequence of every edge must equal the order in which the producing input sets were received (reference order for single-upstream ports, per-upstream projection for fan-in). Round 5: FileCombinator fed by sources that list their files in permuted order (first occurrences keep arrival order). Round 6: tagging components with recorders behind them, some files left untagged. Round 7: a listed file that does not exist between ordered items. Round 8: the FileSplitter shape run a second time with ten and more parts. distinct = event-log hash; non-trivial = >=2 tasks and >=1 non-default choice",
		Run: func(c *Case) Verdict {
			var w *WF
			switch c.Tape.Choose(simrt.StGen, 8, 0) {
			case 2:
				return multiSubOrderCase(c)
			case 3:
				return splitterOrderCase(c)
			case 4:
				return selectorOrderCase(c)
			case 6:
				if c.Tape.Choose(simrt.StGen, 2, 0) == 1 {
					return ghostOrderCase(c)
				}
			case 5:
				if c.Tape.Choose(simrt.StGen, 2, 0) == 1 {
					return repeatedInputOrderCase(c)
				}
				// FileCombinator: sources list their files in a tape-chosen order; on each
				// out-port the files must leave in the order they arrived in
				w, _ := componentCaseKind(c, "filecomb")
				c.Sample = "FileCombinator order: " + sample(w)
				c.Probe("combinator-order-shape")
				ex := Eval(w)
				inc := RunInc(w, c.Tape, nil, 0, IncOpts{KillAt: -1, Strategy: strategyOf(c.Tape), Trace: c.Trace})
				c.Absorb(inc)
				if v, ok := inconclusiveEnd(inc); ok {
					return v
				}
				if !completedOK(inc) {
					return Skipped(Viol("no-completion", "", "%s", endDesc(inc)))
				}
				return combinatorOrder(w, ex, inc)
			}
			mixed := c.Tape.Choose(simrt.StGen, 5, 0) == 1
			if mixed {
				// a process with a streaming AND an ordinary out-port: the ordinary
				// port must keep input order as well
				w = streamWF(c)
				prod := w.NodeByName("prod")
				if len(prod.Outs) == 1 {
					prod.Outs = append(prod.Outs, OutSpec{Name: "o1", Pattern: "{i:a}.prod.o1"})
				}
				prod.Rec = true
				w.NodeByName("cons").Rec = true
			} else {
				w = Generate(c.Tape, tierProfile(profC08, c.Tier))
				for i := range w.Nodes {
					if w.Nodes[i].Kind == KProc || w.Nodes[i].Kind == KMapToTags {
						w.Nodes[i].Rec = true
					}
				}
				if w.MaxTasks < 3 {
					w.MaxTasks += 3
				}
			}
			c.Sample = sample(w)
			ex := Eval(w)
			var root *simrt.Inode
			nextIno := 0
			if !mixed && c.Tape.Choose(simrt.StGen, 3, 0) == 1 {
				// outputs of some (complete) tasks exist already: skipped tasks must
				// not overtake earlier ones that still have to be computed
				var pre map[string][]byte
				root, nextIno, pre = preplaceMap(c, w, ex, false)
				ex = EvalWith(w, pre)
				c.Sample = fmt.Sprintf("pre-existing %v: %s", keysOf(pre), c.Sample)
			}
			inc := RunInc(w, c.Tape, root, nextIno, IncOpts{KillAt: -1, Strategy: strategyOf(c.Tape), Trace: c.Trace})
			c.Absorb(inc)
			outOfOrderProbe(c, inc)
			if v := flowOracle(inc, ex); v.Status != "ok" {
				if v.Status == "violation" {
					return Skipped(v)
				}
				return v
			}
			return orderOracle(inc, ex)
		}})
}

// ghostOrderCase: one of the files a FileSource lists does not exist (yet): its
// task fails when the command opens it and the program stops - but whatever
// left the process before that must be a PREFIX of the arrival order: later
// inputs whose files do exist may not overtake it.
func ghostOrderCase(c *Case) Verdict {
	t := c.Tape
	w := &WF{Name: "wf", Sources: map[string]string{}, MaxTasks: 2 + t.Choose(simrt.StGen, 4, 0), Bufsize: bufsizeOf(t)}
	n := 2 + t.Choose(simrt.StGen, 4, 0)
	s := srcNode(w, "src0", n, "")
	ghost := w.Nodes[s].Files[t.Choose(simrt.StGen, n-1, 0)] // (never the last one)
	delete(w.Sources, ghost)
	w.Ghost = ghost
	p0 := oneToOne(w, "p0", Edge{s, "out"})
	w.Nodes[p0].Rec = true
	oneToOne(w, "use", Edge{p0, "o0"})
	c.Sample = "a listed file does not exist (" + ghost + "): " + sample(w)
	c.Fault("missing-source-file")
	ex := Eval(w)
	inc := RunInc(w, c.Tape, nil, 0, IncOpts{KillAt: -1, Strategy: strategyOf(c.Tape), Trace: c.Trace})
	c.Absorb(inc)
	c.Tasks = max(c.Tasks, 2)
	if v, ok := inconclusiveEnd(inc); ok {
		return v
	}
	var want []string
	for _, it := range ex.Streams["p0.o0"].Items {
		want = append(want, it.Path)
	}
	got := inc.RT.Recorded[recKey("p0", "o0", "use", "a")]
	for i, p := range got {
		if i >= len(want) || want[i] != p {
			return Viol("out-of-order", "missing-file", "edge p0.o0->use.a: items left as %v although the inputs arrived as %v (the task of the missing file %s was overtaken)", got, want, ghost)
		}
	}
	return OK()
}

// --- C09 ------------------------------------------------------------------------------

var profC09 = Profile{
	MaxProcs: 5, MaxItems: 4, Bufsizes: []int{0, 1, 2}, MaxSlots: 5,
	Params: true, MultiOut: true, FanIn: true, FanOut: true, NoPort: true, Custom: true, Sinkless: true,
	Subdirs: true, Cores: true, TwoSources: true, Zip: true, EmptyOuts: true,
}

// dependents: keys of tasks that (transitively) consume an output of t.
func dependents(ex *Expect, t *RTask) map[*RTask]bool {
	if d, ok := ex.depCache[t]; ok {
		return d
	}
	if ex.consumers == nil {
		ex.consumers = map[*Lin][]*RTask{}
		ex.depCache = map[*RTask]map[*RTask]bool{}
		for _, u := range ex.Tasks {
			for _, up := range u.Lin.Upstream {
				ex.consumers[up] = append(ex.consumers[up], u)
			}
		}
	}
	dep := map[*RTask]bool{}
	work := []*Lin{t.Lin}
	for len(work) > 0 {
		l := work[len(work)-1]
		work = work[:len(work)-1]
		for _, u := range ex.consumers[l] {
			if !dep[u] && u != t {
				dep[u] = true
				work = append(work, u.Lin)
			}
		}
	}
	ex.depCache[t] = dep
	return dep
}

func failureOracle(inc *Inc, ex *Expect, victim *RTask, what string, others ...*RTask) Verdict {
	s := inc.Sim
	if v, ok := inconclusiveEnd(inc); ok {
		return v
	}
	if inc.RT.RunReturned {
		return Viol("silent-failure", what, "%s of task %s, but the workflow program reported completion (%s)", what, victim.Key, endDesc(inc))
	}
	if s.End == simrt.EndDeadlock {
		return Viol("failure-hang", what, "%s of task %s, and the workflow hangs instead of stopping: %s", what, victim.Key, endDesc(inc))
	}
	if !(s.End == simrt.EndExit && s.ExitCode != 0) && s.End != simrt.EndPanic {
		return Viol("failure-exit-status", what, "%s of task %s, but the program ended with %s", what, victim.Key, endDesc(inc))
	}
	files := WorkFiles(s.FS.Root)
	for port, p := range victim.Outs {
		if e, ok := files[Abs(p)]; ok && (e.Kind == simrt.KFile || e.Kind == simrt.KSymlink) {
			return Viol("failed-output-visible", what, "%s of task %s, yet its output %s (port %s) exists at the final path with %q", what, victim.Key, p, port, clip(e.Data))
		}
	}
	dep := dependents(ex, victim)
	depKeys := map[string]bool{}
	for d := range dep {
		depKeys[d.Key] = true
	}
	for _, p := range victim.Outs {
		if ex.StreamPaths[Abs(p)] {
			// the consumer of a STREAMED output runs at the same time as its
			// producer by design: the "no dependant executes" clause cannot apply
			depKeys = map[string]bool{}
		}
	}
	for _, e := range s.Shell.Trace {
		if e.Kind == "start" && depKeys[e.Key] {
			return Viol("dependant-executed", what, "%s of task %s, yet the dependent task %s was executed", what, victim.Key, e.Key)
		}
	}
	// whatever did get finalized must still be correct (and never from the victim)
	skip := map[*RTask]bool{}
	for d := range dep {
		skip[d] = true
	}
	for _, ov := range others {
		for d := range dependents(ex, ov) {
			skip[d] = true
		}
	}
	for p, e := range files {
		if o := ex.Owner[p]; o != nil && skip[o] {
			continue // descendants of a failing task (only reachable through a streamed output): nothing is promised
		}
		if want, ok := ex.Files[p]; ok && e.Kind == simrt.KFile && string(e.Data) != string(want) {
			return Viol("wrong-content", what, "after the failure, finalized output %s has content %q, reference %q", p, clip(e.Data), clip(want))
		}
	}
	return OK()
}

func init() {
	Register(&Check{ID: "C09", Level: "exploration",
		Rule: "one case = one generated workflow, one tape-chosen victim task and one failure kind (cmd-exit before / after partial write / after all outputs, cmd-signal at a tape-chosen micro-step, cmd-omit of one declared output, cmd-list: the command is an && list whose middle step fails after the first step wrote all outputs, bad-input: empty parameter value or invalid character in the output path) injected while sibling tasks run under a tape-chosen schedule. Oracle: exit status != 0, RUN-RETURNED marker absent, no output of the victim at its final path, no start event of any transitive dependant, everything else that was finalized is reference-correct; optional history: temp directories removed, same workflow and failure again - the second attempt must stop the same way. Round 5: failing command of a CommandToParams component; a parameter source nobody consumes; history start-again-in-place (nothing removed); producers killed by SIGPIPE when the consumer closes the stream early. Round 6: an output path that needs a tag the file lacks; victims among tasks whose inputs differ only in the directory. Round 7: victims among several processes without out-ports. Round 8: an invalid character in a directory of the output path. distinct = event-log hash; non-trivial = the fault fired, >=1 other task executed, >=1 non-default choice",
		Run: func(c *Case) Verdict {
			var w *WF
			early := false
			switch c.Tape.Choose(simrt.StGen, 10, 0) {
			case 1:
				w = streamWF(c) // the failing command may be a streaming producer or its consumer
				if c.Tape.Choose(simrt.StFault, 4, 0) == 1 {
					// no injected failure: the consumer closes the stream early (head -c)
					// and every producer, with more to write than the pipe holds, dies of
					// SIGPIPE - a command "killed by a signal", whatever it wrote before
					earlyClose(c, w)
					early = true
				}
			case 2:
				return combinatorFailCase(c)
			case 3:
				return cmdParamsFailCase(c)
			case 4:
				return missingTagCase(c)
			case 6:
				// several processes without out-ports (the library documents that it
				// refuses such a workflow; if it runs it, a failure in any of them must
				// still stop the program)
				w = &WF{Name: "wf", Sources: map[string]string{}, MaxTasks: 2 + c.Tape.Choose(simrt.StGen, 3, 0), Bufsize: bufsizeOf(c.Tape)}
				e := Edge{srcNode(w, "src0", 1+c.Tape.Choose(simrt.StGen, 3, 0), ""), "out"}
				pre := oneToOne(w, "pre", e)
				for _, nm := range []string{"enda", "endb", "endc"}[:2+c.Tape.Choose(simrt.StGen, 2, 0)] {
					// (an output nobody consumes would make it an ordinary leaf: none)
					addNode(w, Node{Name: nm, Kind: KProc, Cores: 1, Ins: []InSpec{{Name: "a", From: []Edge{{pre, "o0"}}}}})
				}
				c.Probe("several-sinkless-leaves")
			case 5:
				// tasks of one process whose inputs differ only in the directory: a failing
				// one must not get its unfinished output out through a sibling
				w = sameNameWF(c)
			default:
				w = Generate(c.Tape, tierProfile(profC09, c.Tier))
				if c.Tape.Choose(simrt.StGen, 4, 0) == 1 {
					// a parameter source nobody consumes: its out-port ends in the sink,
					// next to the file out-ports of the leaves (the sink then drains a
					// parameter stream that ends long before the failing task fails)
					var vals []string
					for i := 0; i < c.Tape.Choose(simrt.StGen, 3, 0); i++ {
						vals = append(vals, fmt.Sprintf("unused%d", i))
					}
					addNode(w, Node{Name: "pdangle", Kind: KParamSrc, Vals: vals})
					c.Probe("dangling-param-source")
				}
			}
			ex := Eval(w)
			var cands []*RTask
			for _, t := range ex.Tasks {
				if len(t.Outs) > 0 && w.NodeByName("enda") == nil {
					cands = append(cands, t)
				}
				if strings.HasPrefix(t.Proc, "end") && w.NodeByName("enda") != nil {
					cands = append(cands, t) // (the victim is a task of one of the leaves)
				}
			}
			if len(cands) == 0 {
				c.Probe("trivial-case-nothing-to-fail")
				return OK()
			}
			if early {
				var victims []*RTask
				for _, t := range ex.Tasks {
					if t.Proc == "prod" {
						victims = append(victims, t)
					}
				}
				what := "death by SIGPIPE (the consumer closed the stream early)"
				c.Sample = "every task of prod ends by " + what + ": " + sample(w)
				inc := RunInc(w, c.Tape, nil, 0, IncOpts{KillAt: -1, Strategy: strategyOf(c.Tape), Trace: c.Trace})
				c.Absorb(inc)
				c.Tasks++
				for i, v := range victims {
					var others []*RTask
					others = append(others, victims[:i]...)
					others = append(others, victims[i+1:]...)
					if vd := failureOracle(inc, ex, v, what, others...); vd.Status != "ok" {
						return vd
					}
				}
				return OK()
			}
			kind := c.Tape.Choose(simrt.StFault, 10, 0)
			if kind == 9 {
				// an output path that runs THROUGH a regular file (an input used as a
				// directory): the task cannot be formed / finalized
				var pn *Node
				for i := range w.Nodes {
					n := &w.Nodes[i]
					if n.Kind == KProc && n.Custom == 0 && len(n.Ins) > 0 && !n.Ins[0].Join && len(n.Outs) > 0 && !n.Outs[0].Stream {
						pn = n
						break
					}
				}
				if pn == nil || len(ex.StreamPaths) > 0 {
					// (a streamed input is a FIFO that is gone afterwards, not a regular file)
					kind = c.Tape.Choose(simrt.StFault, 5, 0)
				} else {
					var victims []*RTask
					for _, t := range ex.Tasks {
						if t.Proc == pn.Name {
							victims = append(victims, t)
						}
					}
					pn.Outs[0].Pattern = "{i:" + pn.Ins[0].Name + "}/inside." + pn.Name + ".o0"
					if len(victims) == 0 {
						c.Probe("trivial-case-nothing-to-fail")
						return OK()
					}
					what := "bad-input (output path runs through a regular file)"
					c.Fault("bad-input-path-through-file")
					c.Sample = "fail every task of " + pn.Name + " by " + what + ": " + sample(w)
					inc := RunInc(w, c.Tape, nil, 0, IncOpts{KillAt: -1, Strategy: strategyOf(c.Tape), Trace: c.Trace})
					c.Absorb(inc)
					c.Tasks++
					for i, v := range victims {
						var others []*RTask
						others = append(others, victims[:i]...)
						others = append(others, victims[i+1:]...)
						if vd := failureOracle(inc, ex, v, what, others...); vd.Status != "ok" {
							return vd
						}
					}
					return OK()
				}
			}
			var victim *RTask
			what := ""
			var fault *FaultSpec
			if kind == 7 {
				// the command is an && list whose middle step fails after the first step
				// wrote every output: all tasks of that process fail
				var procs []*Node
				for i := range w.Nodes {
					n := &w.Nodes[i]
					if n.Kind != KProc || n.Custom != 0 || len(n.Outs) == 0 {
						continue
					}
					streams := false
					for _, o := range n.Outs {
						streams = streams || o.Stream
					}
					if !streams {
						procs = append(procs, n)
					}
				}
				if len(procs) == 0 {
					kind = c.Tape.Choose(simrt.StFault, 5, 0)
				} else {
					pn := procs[c.Tape.Choose(simrt.StFault, len(procs), 0)]
					pn.Suffix = []string{"&& false && true", "&& false && echo done", "&& test -e no_such_file && true"}[c.Tape.Choose(simrt.StFault, 3, 0)]
					var victims []*RTask
					for _, t := range ex.Tasks {
						if t.Proc == pn.Name {
							victims = append(victims, t)
						}
					}
					if len(victims) == 0 {
						c.Probe("trivial-case-nothing-to-fail")
						return OK()
					}
					what = "cmd-list-middle-step-fails (" + pn.Suffix + ")"
					c.Fault("cmd-list-middle-fails")
					c.Sample = "fail every task of " + pn.Name + " by " + what + ": " + sample(w)
					inc := RunInc(w, c.Tape, nil, 0, IncOpts{KillAt: -1, Strategy: strategyOf(c.Tape), Trace: c.Trace})
					c.Absorb(inc)
					c.Tasks++
					for i, v := range victims {
						var others []*RTask
						others = append(others, victims[:i]...)
						others = append(others, victims[i+1:]...)
						if vd := failureOracle(inc, ex, v, what, others...); vd.Status != "ok" {
							return vd
						}
					}
					return OK()
				}
			}
			if kind >= 5 && kind != 7 {
				// bad input: needs a parameter port fed by FromStr
				var pn *Node
				for i := range w.Nodes {
					n := &w.Nodes[i]
					if n.Kind == KProc && len(n.Params) > 0 && n.Params[0].From == nil && len(n.Params[0].Vals) > 0 && len(n.Outs) > 0 {
						pn = n
						break
					}
				}
				if pn == nil {
					kind = c.Tape.Choose(simrt.StFault, 5, 0)
				} else {
					i := c.Tape.Choose(simrt.StFault, len(pn.Params[0].Vals), 0)
					for _, t := range ex.Tasks {
						if t.Proc == pn.Name && t.Index == i {
							victim = t
						}
					}
					if kind == 5 {
						pn.Params[0].Vals[i] = ""
						what = "bad-input (empty parameter value)"
						c.Fault("bad-input-empty-param")
					} else if kind == 8 {
						pn.Params[0].Vals[i] = strings.Repeat("x", 300)
						what = "bad-input (file name longer than NAME_MAX)"
						c.Fault("bad-input-name-too-long")
					} else {
						pn.Params[0].Vals[i] = "bad value*"
						what = "bad-input (invalid output path)"
						if c.Tape.Choose(simrt.StFault, 2, 0) == 1 {
							// the invalid character in a directory component of the path
							pn.Params[0].Vals[i] = "k=v/ok"
							what = "bad-input (invalid character in a directory of the output path)"
						}
						c.Fault("bad-input-invalid-path")
					}
					if victim == nil {
						return Inconclusive("victim not found")
					}
				}
			}
			if victim == nil {
				victim = cands[c.Tape.Choose(simrt.StFault, len(cands), 0)]
				mode := simrt.FailMode(1 + kind)
				if len(victim.Outs) == 0 && (mode == simrt.FailOmit || mode == simrt.FailExitPartial) {
					mode = simrt.FailExitAfter // (a task without outputs has nothing to omit or to write partly)
				}
				for _, p := range victim.Outs {
					if ex.StreamPaths[Abs(p)] && mode == simrt.FailOmit {
						// "not producing" a streamed output means never opening the FIFO:
						// outside the statement (streamed outputs are exempt from the
						// existence check); use an early exit instead
						mode = simrt.FailExitBefore
					}
				}
				arg := c.Tape.Choose(simrt.StFault, 6, 0)
				if vn := w.NodeByName(victim.Proc); mode == simrt.FailOmit && vn != nil && vn.Custom == 0 && c.Tape.Choose(simrt.StFault, 3, 0) == 1 {
					// ... or leaves a dangling symbolic link where the output should be
					// (cp from a missing place failed quietly, ln -s made the link): the
					// declared output does not exist
					mode = simrt.FailDangling
				}
				what = mode.String()
				fault = &FaultSpec{Key: victim.Key, Mode: mode, Arg: arg}
			}
			// sometimes a second, independent task fails in the same run
			var fault2 *FaultSpec
			var victim2 *RTask
			if fault != nil && len(cands) > 1 && c.Tape.Choose(simrt.StFault, 4, 0) == 1 {
				dep := dependents(ex, victim)
				var c2 []*RTask
				for _, t := range cands {
					if t != victim && !dep[t] && !dependents(ex, t)[victim] {
						c2 = append(c2, t)
					}
				}
				if len(c2) > 0 {
					victim2 = c2[c.Tape.Choose(simrt.StFault, len(c2), 0)]
					fault2 = &FaultSpec{Key: victim2.Key, Mode: simrt.FailMode(1 + c.Tape.Choose(simrt.StFault, 5, 0)), Arg: c.Tape.Choose(simrt.StFault, 6, 0)}
					for _, p := range victim2.Outs {
						if ex.StreamPaths[Abs(p)] && fault2.Mode == simrt.FailOmit {
							fault2.Mode = simrt.FailExitBefore
						}
					}
					what += " (and " + fault2.Mode.String() + " of " + victim2.Key + ")"
					c.Fault("second-failure")
				}
			}
			c.Sample = "fail " + victim.Key + " by " + what + ": " + sample(w)
			inc := RunInc(w, c.Tape, nil, 0, IncOpts{KillAt: -1, Strategy: strategyOf(c.Tape), Trace: c.Trace, Fault: fault, Fault2: fault2})
			c.Absorb(inc)
			if victim2 != nil && fault2.Hit {
				if v := failureOracle(inc, ex, victim2, what, victim); v.Status != "ok" {
					return v
				}
			}
			var others []*RTask
			if victim2 != nil {
				others = append(others, victim2)
			}
			if fault != nil && !fault.Hit {
				// the victim was never started - only legal if something else went wrong first
				if completedOK(inc) {
					return Skipped(Viol("task-lost", "", "task %s was never executed", victim.Key))
				}
			}
			c.Tasks++ // the failing command counts as work
			v1 := failureOracle(inc, ex, victim, what, others...)
			if v1.Status != "ok" || fault == nil || fault2 != nil || !fault.Hit || len(ex.StreamPaths) > 0 {
				return v1 // (re-runs of streaming workflows are C17's business)
			}
			hist := c.Tape.Choose(simrt.StFault, 5, 0)
			if hist == 2 {
				// history: the workflow is simply started again in place, nothing removed;
				// the command still fails the same way. Whether the second attempt stops at
				// the leftovers of the first or gets as far as the failing command again, it
				// must not report completion, the failing task's outputs must not appear
				// and nothing that depends on them may run
				c.Fault("retry-in-place")
				f2 := &FaultSpec{Key: fault.Key, Mode: fault.Mode, Arg: fault.Arg}
				inc2 := RunInc(w, c.Tape, inc.Sim.FS.Root.Clone(), inc.Sim.FS.NextIno, IncOpts{KillAt: -1, Strategy: strategyOf(c.Tape), Trace: c.Trace, Fault: f2})
				c.Absorb(inc2)
				return failureOracle(inc2, ex, victim, what+" (second attempt, started in place without removing anything)", others...)
			}
			if hist != 1 {
				return v1
			}
			// history: the user removes the temp directories, as the error message asks,
			// and starts the workflow again; the command still fails the same way - the
			// second attempt must not be any more silent than the first
			c.Fault("retry-after-cleanup")
			f2 := &FaultSpec{Key: fault.Key, Mode: fault.Mode, Arg: fault.Arg}
			inc2 := RunInc(w, c.Tape, Cleanup(inc.Sim.FS.Root), inc.Sim.FS.NextIno, IncOpts{KillAt: -1, Strategy: strategyOf(c.Tape), Trace: c.Trace, Fault: f2})
			c.Absorb(inc2)
			if !f2.Hit && completedOK(inc2) {
				return Viol("silent-failure", what+" (second attempt)", "%s of task %s; after cleanup the workflow was started again: the task was not executed at all and the program reported completion (%s)", what, victim.Key, endDesc(inc2))
			}
			v2 := failureOracle(inc2, ex, victim, what+" (second attempt after cleanup)", others...)
			return v2
		}})
}

// missingTagCase: an output path pattern uses a tag ({t:port.key}) that some of
// the arriving files do not carry (the tagging component upstream returned no
// tag for them): such a task cannot be formed - the workflow must stop with a
// non-zero status, not write to a path with an empty tag value.
func missingTagCase(c *Case) Verdict {
	t := c.Tape
	w := &WF{Name: "wf", Sources: map[string]string{}, MaxTasks: 1 + t.Choose(simrt.StGen, 4, 0), Bufsize: bufsizeOf(t)}
	e := Edge{srcNode(w, "src0", 2+t.Choose(simrt.StGen, 4, 0), ""), "out"}
	if t.Choose(simrt.StGen, 2, 0) == 1 {
		e = Edge{oneToOne(w, "pre", e), "o0"}
	}
	tg := addNode(w, Node{Name: "tagk", Kind: KMapToTags, TagKey: "kind", TagSkip: 2 + t.Choose(simrt.StGen, 2, 0),
		Ins: []InSpec{{Name: "in", From: []Edge{e}}}, Outs: []OutSpec{{Name: "out"}}})
	use := addNode(w, Node{Name: "use", Kind: KProc, Cores: 1,
		Ins:  []InSpec{{Name: "a", From: []Edge{{tg, "out"}}}},
		Outs: []OutSpec{{Name: "o0", Pattern: "{t:a.kind}.{i:a|basename}.use.o0"}}})
	if t.Choose(simrt.StGen, 2, 0) == 1 {
		oneToOne(w, "post", Edge{use, "o0"})
	}
	ex := Eval(w)
	var victims []*RTask
	for _, tk := range ex.Tasks {
		if tk.Proc == "use" && tagValueFor(&w.Nodes[tg], tk.Ins["a"].Path) == "" {
			victims = append(victims, tk)
		}
	}
	if len(victims) == 0 {
		c.Probe("trivial-case-nothing-to-fail")
		return OK()
	}
	what := "bad-input (the output path needs a tag the file does not carry)"
	c.Fault("bad-input-missing-tag")
	c.Sample = what + ": " + sample(w)
	inc := RunInc(w, c.Tape, nil, 0, IncOpts{KillAt: -1, Strategy: strategyOf(c.Tape), Trace: c.Trace})
	c.Absorb(inc)
	c.Tasks++
	for i, v := range victims {
		var others []*RTask
		others = append(others, victims[:i]...)
		others = append(others, victims[i+1:]...)
		if vd := failureOracle(inc, ex, v, what, others...); vd.Status != "ok" {
			return vd
		}
	}
	return OK()
}

// cmdParamsFailCase: the command of a CommandToParams component fails
// (non-zero exit after printing none / some / all of its lines, or killed):
// the lines it printed must not be passed on as if they were the complete
// parameter stream - the program must stop with a non-zero status.
func cmdParamsFailCase(c *Case) Verdict {
	t := c.Tape
	w := &WF{Name: "wf", Sources: map[string]string{}}
	n := t.Choose(simrt.StGen, 4, 0)
	var vals, cmds []string
	for i := 0; i < n; i++ {
		v := fmt.Sprintf("line%d", i)
		vals = append(vals, v)
		cmds = append(cmds, "echo "+v)
	}
	tail := []string{"false", "exit 3", "test -e no_such_file", "cat no_such_file.txt"}[t.Choose(simrt.StFault, 4, 0)]
	sep := []string{" && ", " ; "}[t.Choose(simrt.StFault, 2, 0)]
	cmd := strings.Join(append(cmds, tail), sep)
	if t.Choose(simrt.StFault, 3, 0) == 1 && n > 0 {
		// the failing step in the middle of an && list
		k := t.Choose(simrt.StFault, n, 0)
		cmd = strings.Join(append(append(append([]string{}, cmds[:k]...), tail), cmds[k:]...), " && ")
	}
	ri := addNode(w, Node{Name: "rd", Kind: KCmdToParams, FilePath: cmd, Vals: vals})
	paramConsumer(w, "use", []Edge{{ri, "param"}}, []string{"x"})
	if t.Choose(simrt.StGen, 2, 0) == 1 {
		oneToOne(w, "side", Edge{srcNode(w, "src0", 1+t.Choose(simrt.StGen, 3, 0), ""), "out"})
	}
	w.MaxTasks = 1 + t.Choose(simrt.StGen, 4, 0)
	w.Bufsize = bufsizeOf(t)
	what := "the command of CommandToParams fails (" + cmd + ")"
	c.Fault("component-command-fails")
	c.Sample = what + ": " + sample(w)
	inc := RunInc(w, c.Tape, nil, 0, IncOpts{KillAt: -1, Strategy: strategyOf(c.Tape), Trace: c.Trace})
	c.Absorb(inc)
	c.Tasks += 2
	if v, ok := inconclusiveEnd(inc); ok {
		return v
	}
	s := inc.Sim
	if inc.RT.RunReturned {
		return Viol("silent-failure", "cmd-to-params", "%s, but the workflow program reported completion (%s)", what, endDesc(inc))
	}
	if s.End == simrt.EndDeadlock {
		return Viol("failure-hang", "cmd-to-params", "%s, and the workflow hangs instead of stopping: %s", what, endDesc(inc))
	}
	if !(s.End == simrt.EndExit && s.ExitCode != 0) && s.End != simrt.EndPanic {
		return Viol("failure-exit-status", "cmd-to-params", "%s, but the program ended with %s", what, endDesc(inc))
	}
	return OK()
}

// --- C16 ------------------------------------------------------------------------------

var profC16 = Profile{
	MaxProcs: 6, MaxItems: 3, Bufsizes: []int{0, 1, 2}, MaxSlots: 4,
	Params: true, MultiOut: true, FanIn: true, FanOut: true, NoPort: true, ParamSrc: true,
	Subdirs: true, TwoSources: true, Zip: true, Sinkless: true,
}

func init() {
	Register(&Check{ID: "C16", Level: "exploration",
		Rule: "two kinds of cases, tape-chosen: (a) a generated workflow with exactly one in-port or parameter port left unconnected: the program must exit != 0 with an EMPTY command-execution trace; (b) RunTo / RunToRegex / RunToProcs with 1..3 tape-chosen targets on a generated graph (diamonds, parameter edges, fan-in): the set of processes with any start event must equal the reference closure exactly, all their tasks executed exactly once, final files = reference evaluation of the closure. Round 5: every script the program starts is recorded; half of the ParamSource nodes are CommandToParams components whose command counts like any other; RunTo* with an empty target set must start nothing. Round 6: the unconnected port may lie inside a RunTo closure; a CommandToParams component may itself be a RunTo target (its drained stream must have been produced when Run returns). Round 7: several processes without out-ports as RunTo targets; dotted process names. Round 8: inline flags in RunToRegex patterns. distinct = event-log hash; non-trivial = (a) the refusal, (b) >=2 tasks executed; and >=1 non-default choice",
		Run: func(c *Case) Verdict {
			switch c.Tape.Choose(simrt.StGen, 6, 0) {
			case 1:
				return combinatorUnwiredCase(c)
			case 2:
				return paramChainRunToCase(c)
			case 3:
				if c.Tape.Choose(simrt.StGen, 3, 0) == 1 {
					return severalLeavesRunToCase(c)
				}
			}
			w := Generate(c.Tape, tierProfile(profC16, c.Tier))
			if c.Tape.Choose(simrt.StGen, 4, 0) == 1 {
				// a process whose name contains a dot (a tool version): names are free text
				var ps []int
				for i := range w.Nodes {
					if w.Nodes[i].Kind == KProc {
						ps = append(ps, i)
					}
				}
				if len(ps) > 0 {
					n := &w.Nodes[ps[c.Tape.Choose(simrt.StGen, len(ps), 0)]]
					old, nu := n.Name, n.Name+"_0.7"
					n.Name = nu
					for k := range n.Outs {
						n.Outs[k].Pattern = strings.ReplaceAll(n.Outs[k].Pattern, "."+old+".", "."+nu+".")
					}
					for k := range n.Extras {
						n.Extras[k] = strings.ReplaceAll(n.Extras[k], "_"+old+"_", "_"+nu+"_")
					}
					c.Probe("process-name-with-a-dot")
				}
			}
			// some parameter sources are CommandToParams components: they run a
			// command of their own, which counts like any other process' command
			cmdSrc := map[string]string{} // node name -> its script
			for i := range w.Nodes {
				n := &w.Nodes[i]
				if n.Kind != KParamSrc || c.Tape.Choose(simrt.StGen, 2, 0) != 1 {
					continue
				}
				var cmds []string
				for _, v := range n.Vals {
					cmds = append(cmds, "echo "+v)
				}
				cmds = append(cmds, ": "+n.Name)
				n.Kind = KCmdToParams
				n.FilePath = strings.Join(cmds, " && ")
				cmdSrc[n.Name] = n.FilePath
				for j := range w.Nodes {
					for k := range w.Nodes[j].Params {
						if f := w.Nodes[j].Params[k].From; f != nil && f.Node == i {
							f.Port = "param"
						}
					}
				}
				c.Probe("command-to-params-source")
			}
			if c.Tape.Choose(simrt.StGen, 12, 0) == 1 {
				// RunTo* with a target set that selects nothing (an empty list, a
				// mistyped pattern): the closure is empty - no command of any process
				w.RunToNone = true
				w.RunToMode = c.Tape.Choose(simrt.StGen, 3, 0)
				c.Fault("runto-empty-target-set")
				c.Sample = sample(w)
				inc := RunInc(w, c.Tape, nil, 0, IncOpts{KillAt: -1, Strategy: strategyOf(c.Tape), Trace: c.Trace})
				c.Absorb(inc)
				c.Tasks = 2
				if v, ok := inconclusiveEnd(inc); ok {
					return v
				}
				if us := userScripts(inc); len(us) > 0 {
					return Viol("outside-closure-executed", "empty-target-set", "RunTo (mode %d) with a target set that selects no process executed command(s): %v", w.RunToMode, us)
				}
				if inc.Sim.End == simrt.EndDeadlock {
					return Viol("runto-hang", "empty-target-set", "RunTo with an empty target set never returns: %s", endDesc(inc))
				}
				return OK()
			}
			if c.Tape.Choose(simrt.StGen, 3, 0) == 1 {
				// (a) leave one port unconnected
				type slot struct {
					n, k  int
					param bool
				}
				var slots []slot
				for i := range w.Nodes {
					n := &w.Nodes[i]
					if n.Kind != KProc {
						continue
					}
					for k := range n.Ins {
						slots = append(slots, slot{i, k, false})
					}
					for k := range n.Params {
						slots = append(slots, slot{i, k, true})
					}
				}
				if len(slots) == 0 {
					c.Probe("trivial-case-no-port")
					return OK()
				}
				sl := slots[c.Tape.Choose(simrt.StGen, len(slots), 0)]
				n := &w.Nodes[sl.n]
				pname := ""
				if sl.param {
					n.Params[sl.k].Unconnected = true
					pname = "parameter port " + n.Params[sl.k].Name
				} else {
					n.Ins[sl.k].Unconnected = true
					pname = "in-port " + n.Ins[sl.k].Name
					if c.Tape.Choose(simrt.StGen, 2, 0) == 1 {
						// connected first, then disconnected again: still unconnected at Run
						n.Ins[sl.k].Disconnected = true
						pname += " (connected, then disconnected)"
					}
				}
				c.Fault("unconnected-port")
				if c.Tape.Choose(simrt.StGen, 2, 0) == 1 {
					// ... and the program uses RunTo* with a target whose upstream closure
					// contains the half-wired process: must be refused all the same
					var cands []string
					for i := range w.Nodes {
						if w.Nodes[i].Kind != KProc {
							continue
						}
						w.RunTo = []string{w.Nodes[i].Name}
						if w.closure()[n.Name] {
							cands = append(cands, w.Nodes[i].Name)
						}
					}
					w.RunTo = nil
					if len(cands) > 0 {
						tgt := cands[c.Tape.Choose(simrt.StGen, len(cands), 0)]
						w.RunToMode = c.Tape.Choose(simrt.StGen, 3, 0)
						w.RunTo = []string{tgt}
						if w.RunToMode == 1 {
							w.RunTo = []string{"^" + tgt + "$"}
						}
						pname += fmt.Sprintf(" (RunTo mode %d, target %s)", w.RunToMode, tgt)
						c.Probe("unconnected-port-inside-runto-closure")
					}
				}
				c.Sample = "unconnected " + n.Name + " " + pname + ": " + sample(w)
				inc := RunInc(w, c.Tape, nil, 0, IncOpts{KillAt: -1, Strategy: strategyOf(c.Tape), Trace: c.Trace})
				c.Absorb(inc)
				c.Tasks = 2
				if v, ok := inconclusiveEnd(inc); ok {
					return v
				}
				s := inc.Sim
				if len(s.Shell.Trace) > 0 {
					return Viol("unwired-executed", "", "%s of %s is unconnected, yet command(s) were executed: %v", pname, n.Name, execKeys(s.Shell.Trace, "start", 0))
				}
				if us := userScripts(inc); len(us) > 0 {
					return Viol("unwired-executed", "", "%s of %s is unconnected, yet command(s) were executed: %v", pname, n.Name, us)
				}
				if !(s.End == simrt.EndExit && s.ExitCode != 0) {
					return Viol("unwired-not-refused", "", "%s of %s is unconnected, but the program ended with %s", pname, n.Name, endDesc(inc))
				}
				return OK()
			}
			// (b) RunTo
			pickRunTo(c.Tape, w)
			if len(cmdSrc) > 0 && w.RunToMode != 1 && c.Tape.Choose(simrt.StGen, 3, 0) == 1 {
				// a CommandToParams component is itself named as a target
				names := sortedKeys(cmdSrc)
				w.RunTo = append(w.RunTo, names[c.Tape.Choose(simrt.StGen, len(names), 0)])
				c.Probe("command-source-is-a-runto-target")
			}
			c.Sample = sample(w)
			ex := Eval(w)
			inc := RunInc(w, c.Tape, nil, 0, IncOpts{KillAt: -1, Strategy: strategyOf(c.Tape), Trace: c.Trace})
			c.Absorb(inc)
			if v, ok := inconclusiveEnd(inc); ok {
				return v
			}
			started := map[string]bool{}
			for _, e := range inc.Sim.Shell.Trace {
				if e.Kind == "start" {
					started[e.Name] = true
				}
			}
			var outside []string
			for p := range started {
				if !ex.Active[p] {
					outside = append(outside, p)
				}
			}
			sort.Strings(outside)
			if len(outside) > 0 {
				return Viol("outside-closure-executed", "", "RunTo%v executed command(s) of process(es) outside the upstream closure: %v", w.RunTo, outside)
			}
			ran := map[string]int{}
			for _, sc := range inc.Sim.Shell.Scripts {
				ran[sc]++
			}
			for _, name := range sortedKeys(cmdSrc) {
				sc := cmdSrc[name]
				if !ex.Active[name] && ran[sc] > 0 {
					return Viol("outside-closure-executed", "", "RunTo%v executed the command of %s (CommandToParams: %s), which is outside the upstream closure", w.RunTo, name, sc)
				}
				// a component inside the closure whose parameter stream nobody inside the
				// closure consumes: the stream ends in the sink, Run waits for it - its
				// command has run (once) when Run returns
				consumed := false
				for _, n := range w.Nodes {
					for _, ps := range n.Params {
						if ps.From != nil && w.Nodes[ps.From.Node].Name == name && ex.Active[n.Name] {
							consumed = true
						}
					}
				}
				if ex.Active[name] && !consumed && inc.RT.RunReturned && ran[sc] != 1 {
					return Viol("closure-command-count", "", "RunTo%v returned; the command of %s (CommandToParams, inside the closure, its parameter stream drained by the sink) was executed %d times", w.RunTo, name, ran[sc])
				}
				// (otherwise 0 times is legitimate: when its consumer needs no item - an
				// empty partner stream - the program may end before the component ever ran)
				if ex.Active[name] && ran[sc] > 1 {
					return Viol("closure-command-count", "", "RunTo%v: the command of %s (CommandToParams, inside the closure) was executed %d times", w.RunTo, name, ran[sc])
				}
			}
			return flowOracle(inc, ex)
		}})
}

var _ = fmt.Sprint

// severalLeavesRunToCase: RunTo names two or three processes without out-ports.
// The library documents that it refuses workflows with more than one such
// process (before any command); if it runs them, RunTo must execute ALL tasks
// of all named processes before it returns.
func severalLeavesRunToCase(c *Case) Verdict {
	t := c.Tape
	w := &WF{Name: "wf", Sources: map[string]string{}, MaxTasks: 2 + t.Choose(simrt.StGen, 3, 0), Bufsize: bufsizeOf(t)}
	e := Edge{srcNode(w, "src0", 1+t.Choose(simrt.StGen, 3, 0), ""), "out"}
	if t.Choose(simrt.StGen, 2, 0) == 1 {
		e = Edge{oneToOne(w, "pre", e), "o0"}
	}
	for _, nm := range []string{"enda", "endb", "endc"}[:2+t.Choose(simrt.StGen, 2, 0)] {
		addNode(w, Node{Name: nm, Kind: KProc, Cores: 1, Ins: []InSpec{{Name: "a", From: []Edge{e}}}})
		w.RunTo = append(w.RunTo, nm)
	}
	w.RunToMode = []int{0, 2}[t.Choose(simrt.StGen, 2, 0)]
	c.Sample = "RunTo names several processes without out-ports: " + sample(w)
	c.Probe("runto-several-sinkless-targets")
	ex := Eval(w)
	inc := RunInc(w, c.Tape, nil, 0, IncOpts{KillAt: -1, Strategy: strategyOf(c.Tape), Trace: c.Trace})
	c.Absorb(inc)
	c.Tasks = 2
	if v, ok := inconclusiveEnd(inc); ok {
		return v
	}
	if inc.Sim.End == simrt.EndDeadlock {
		return Viol("runto-hang", "several-leaves", "RunTo with several targets without out-ports never returns: %s", endDesc(inc))
	}
	if !inc.RT.RunReturned {
		if us := userScripts(inc); len(us) > 0 {
			return Viol("unwired-executed", "several-leaves", "the workflow was refused (%s), yet command(s) were executed first: %v", endDesc(inc), us)
		}
		return OK()
	}
	got := execKeys(inc.Sim.Shell.Trace, "exit", 0)
	if missing, _ := multisetDiff(got, ex.TaskKeys()); len(missing) > 0 || len(inc.RT.ReturnRunning) > 0 {
		return Viol("task-lost", "several-leaves", "RunTo%v returned, but task(s) of named processes were not executed (missing %v, still running %v)", w.RunTo, missing, inc.RT.ReturnRunning)
	}
	return OK()
}

// userScripts: the scripts the program started, without the library's own
// housekeeping (mkfifo / rm of a FIFO).
func userScripts(inc *Inc) []string {
	var out []string
	for _, sc := range inc.Sim.Shell.Scripts {
		if strings.HasPrefix(sc, "mkfifo ") || strings.HasPrefix(sc, "rm ") {
			continue
		}
		out = append(out, sc)
	}
	return out
}

// refusalOracle: the program must refuse to run (exit != 0) before executing anything.
func refusalOracle(c *Case, w *WF, what string) Verdict {
	inc := RunInc(w, c.Tape, nil, 0, IncOpts{KillAt: -1, Strategy: strategyOf(c.Tape), Trace: c.Trace})
	c.Absorb(inc)
	c.Tasks = 2
	if v, ok := inconclusiveEnd(inc); ok {
		return v
	}
	s := inc.Sim
	if len(s.Shell.Trace) > 0 {
		return Viol("unwired-executed", "", "%s is unconnected, yet command(s) were executed: %v", what, execKeys(s.Shell.Trace, "start", 0))
	}
	if !(s.End == simrt.EndExit && s.ExitCode != 0) {
		return Viol("unwired-not-refused", "", "%s is unconnected, but the program ended with %s", what, endDesc(inc))
	}
	return OK()
}

// combinatorUnwiredCase: a component whose in-ports and out-ports carry the
// same names (FileCombinator / ParamCombinator) with one in-side port left
// unconnected while the same-named out-port is consumed.
func combinatorUnwiredCase(c *Case) Verdict {
	t := c.Tape
	w := &WF{Name: "wf", Sources: map[string]string{}, MaxTasks: 1 + t.Choose(simrt.StGen, 3, 0), Bufsize: bufsizeOf(t)}
	ports := []string{"a", "b", "c"}
	k := 1 + t.Choose(simrt.StGen, 3, 0)
	miss := t.Choose(simrt.StGen, k, 0)
	c.Fault("unconnected-port")
	if t.Choose(simrt.StGen, 3, 0) == 2 {
		// a dependent FileGlobber whose dependency port is the one left unwired
		prep := oneToOne(w, "prepare", Edge{srcNode(w, "srcp", 1, ""), "out"})
		_ = prep
		w.Sources["data/g1.txt"] = "glob source 1\n"
		g := addNode(w, Node{Name: "glob", Kind: KGlobber, Globs: []string{"data/*.txt"}, Files: []string{"data/g1.txt"},
			Ins: []InSpec{{Name: "in_dep", Unconnected: true}}, Outs: []OutSpec{{Name: "out"}}})
		oneToOne(w, "copy", Edge{g, "out"})
		c.Sample = "dependent FileGlobber with in_dep unconnected: " + sample(w)
		return refusalOracle(c, w, "in-port in_dep of glob")
	}
	if t.Choose(simrt.StGen, 2, 0) == 0 {
		cmb := Node{Name: "comb", Kind: KFileCombinator}
		for i := 0; i < k; i++ {
			in := InSpec{Name: ports[i]}
			if i == miss {
				in.Unconnected = true
			} else {
				s := srcNode(w, "src"+ports[i], 1+t.Choose(simrt.StGen, 2, 0), "")
				in.From = []Edge{{s, "out"}}
			}
			cmb.Ins = append(cmb.Ins, in)
			cmb.Outs = append(cmb.Outs, OutSpec{Name: ports[i]})
		}
		ci := addNode(w, cmb)
		var outs []Edge
		for i := 0; i < k; i++ {
			outs = append(outs, Edge{ci, ports[i]})
		}
		zipConsumer(w, "use", outs, ports[:k])
		// an unrelated branch that could run if the refusal did not happen
		oneToOne(w, "witness", Edge{srcNode(w, "srcw", 1, ""), "out"})
		c.Sample = "FileCombinator in-port " + ports[miss] + " unconnected: " + sample(w)
		return refusalOracle(c, w, "in-port "+ports[miss]+" of comb")
	}
	cmb := Node{Name: "pcomb", Kind: KParamCombinator}
	for i := 0; i < k; i++ {
		ps := ParamSpec{Name: ports[i]}
		if i == miss {
			ps.Unconnected = true
		} else {
			ps.Vals = []string{ports[i] + "0", ports[i] + "1"}
		}
		cmb.Params = append(cmb.Params, ps)
	}
	ci := addNode(w, cmb)
	var outs []Edge
	for i := 0; i < k; i++ {
		outs = append(outs, Edge{ci, ports[i]})
	}
	paramConsumer(w, "use", outs, ports[:k])
	oneToOne(w, "witness", Edge{srcNode(w, "srcw", 1, ""), "out"})
	c.Sample = "ParamCombinator in-port " + ports[miss] + " unconnected: " + sample(w)
	return refusalOracle(c, w, "parameter in-port "+ports[miss]+" of pcomb")
}

// paramChainRunToCase: the RunTo target depends THROUGH A PARAMETER CONNECTION
// on a process that has upstream processes itself (sources -> ParamCombinator
// ==params==> target), next to processes that must not run.
func paramChainWF(c *Case) *WF {
	t := c.Tape
	w := &WF{Name: "wf", Sources: map[string]string{}, MaxTasks: 1 + t.Choose(simrt.StGen, 3, 0), Bufsize: bufsizeOf(t)}
	ports := []string{"a", "b", "c"}
	k := 1 + t.Choose(simrt.StGen, 3, 0)
	kt := k
	if k >= 2 && t.Choose(simrt.StGen, 2, 0) == 1 {
		// the last parameter stream goes to a process OUTSIDE the closure: under
		// RunTo it dangles (to the sink) next to the file stream of the target
		kt = k - 1
	}
	cmb := Node{Name: "pcomb", Kind: KParamCombinator}
	for i := 0; i < k; i++ {
		n := 1 + t.Choose(simrt.StGen, 3, 0)
		if i >= kt {
			n = 1 // one value only: the target's own streams then stay free of repeated tuples
		}
		var vals []string
		for x := 0; x < n; x++ {
			vals = append(vals, fmt.Sprintf("%s%d", ports[i], x))
		}
		s := addNode(w, Node{Name: "ps" + ports[i], Kind: KParamSrc, Vals: vals})
		cmb.Params = append(cmb.Params, ParamSpec{Name: ports[i], From: &Edge{s, "out"}})
	}
	ci := addNode(w, cmb)
	var outs []Edge
	for i := 0; i < k; i++ {
		outs = append(outs, Edge{ci, ports[i]})
	}
	if kt < k {
		paramConsumer(w, "pside", outs[kt:], ports[kt:k])
	}
	tgt := paramConsumer(w, "target", outs[:kt], ports[:kt])
	after := oneToOne(w, "after", Edge{tgt, "o0"})
	oneToOne(w, "after2", Edge{after, "o0"})
	oneToOne(w, "side", Edge{srcNode(w, "srcs", 1, ""), "out"})
	w.RunTo = []string{"target"}
	if t.Choose(simrt.StGen, 3, 0) == 1 {
		w.RunTo = []string{"after"}
	}
	w.RunToMode = t.Choose(simrt.StGen, 3, 0)
	return w
}

// paramFanInWF: a parameter port fed by an upstream process AND by FromStr at
// the same time; RunTo on the consumer must still include the upstream process.
func paramFanInWF(c *Case) *WF {
	t := c.Tape
	w := &WF{Name: "wf", Sources: map[string]string{}, MaxTasks: 1 + t.Choose(simrt.StGen, 3, 0), Bufsize: bufsizeOf(t)}
	var up, own []string
	for i := 0; i < 1+t.Choose(simrt.StGen, 3, 0); i++ {
		up = append(up, fmt.Sprintf("u%d", i))
	}
	for i := 0; i < 1+t.Choose(simrt.StGen, 4, 0); i++ {
		own = append(own, fmt.Sprintf("v%d", i))
	}
	s := addNode(w, Node{Name: "psx", Kind: KParamSrc, Vals: up})
	tgt := addNode(w, Node{Name: "target", Kind: KProc, Cores: 1,
		Params: []ParamSpec{{Name: "x", From: &Edge{s, "out"}, Vals: own}},
		Outs:   []OutSpec{{Name: "o0", Pattern: "target.{p:x}.o0"}}})
	oneToOne(w, "after", Edge{tgt, "o0"})
	oneToOne(w, "side", Edge{srcNode(w, "srcs", 1, ""), "out"})
	w.RunTo = []string{"target"}
	w.RunToMode = t.Choose(simrt.StGen, 3, 0)
	return w
}

func paramChainRunToCase(c *Case) Verdict {
	w := paramChainWF(c)
	if c.Tape.Choose(simrt.StGen, 3, 0) == 1 {
		w = paramFanInWF(c)
	}
	c.Sample = sample(w)
	ex := Eval(w)
	inc := RunInc(w, c.Tape, nil, 0, IncOpts{KillAt: -1, Strategy: strategyOf(c.Tape), Trace: c.Trace})
	c.Absorb(inc)
	if v, ok := inconclusiveEnd(inc); ok {
		return v
	}
	for _, e := range inc.Sim.Shell.Trace {
		if e.Kind == "start" && !ex.Active[e.Name] {
			return Viol("outside-closure-executed", "", "RunTo%v executed a command of %s, which is outside the upstream closure", w.RunTo, e.Name)
		}
	}
	return flowOracle(inc, ex)
}

// multiSubOrderCase: a joining process that receives SEVERAL sub-stream
// carriers; an earlier carrier's sub-stream may close later than a later
// one's. Its outputs must still leave in the order the carriers arrived.
func multiSubOrderCase(c *Case) Verdict {
	t := c.Tape
	w := &WF{Name: "wf", Sources: map[string]string{}}
	k := 2 + t.Choose(simrt.StGen, 2, 0)
	ports := []string{"a", "b", "c"}
	ms := Node{Name: "msub", Kind: KMultiSub, Outs: []OutSpec{{Name: "out"}}}
	var grp []string
	for i := 0; i < k; i++ {
		e := Edge{srcNode(w, "src"+ports[i], 1+t.Choose(simrt.StGen, 3, 0), ""), "out"}
		if t.Choose(simrt.StGen, 2, 0) == 1 {
			e = Edge{oneToOne(w, "pre"+ports[i], e), "o0"}
		}
		ms.Ins = append(ms.Ins, InSpec{Name: ports[i], From: []Edge{e}})
		grp = append(grp, fmt.Sprintf("g%d", i))
	}
	mi := addNode(w, ms)
	addNode(w, Node{Name: "join", Kind: KProc, Cores: 1, Rec: true,
		Ins:    []InSpec{{Name: "x", From: []Edge{{mi, "out"}}, Join: true, Sep: ","}},
		Params: []ParamSpec{{Name: "g", Vals: grp}},
		Outs:   []OutSpec{{Name: "o0", Pattern: "joined.{p:g}.join.o0"}}})
	w.MaxTasks = 2 + t.Choose(simrt.StGen, 4, 0)
	w.Bufsize = bufsizeOf(t)
	c.Sample = "several sub-stream carriers: " + sample(w)
	ex := Eval(w)
	inc := RunInc(w, c.Tape, nil, 0, IncOpts{KillAt: -1, Strategy: strategyOf(c.Tape), Trace: c.Trace})
	c.Absorb(inc)
	outOfOrderProbe(c, inc)
	if v := flowOracle(inc, ex); v.Status != "ok" {
		return foreign(v)
	}
	return orderOracle(inc, ex)
}

// splitterOrderCase: a FileSplitter that receives several files: the parts
// leave in the order of the input files, and in ascending order within a file.
func splitterOrderCase(c *Case) Verdict {
	t := c.Tape
	w := &WF{Name: "wf", Sources: map[string]string{}}
	src := Node{Name: "src0", Kind: KFileSrc}
	nf := 2 + t.Choose(simrt.StGen, 2, 0)
	// history: the completed workflow is run a second time in place; whatever the
	// component emits then (nothing, or the parts that exist) must be in order too
	again := t.Choose(simrt.StGen, 3, 0) == 1
	for i := 0; i < nf; i++ {
		p := fmt.Sprintf("lines%d.txt", i)
		var b strings.Builder
		nl := 1 + t.Choose(simrt.StGen, 7, 0)
		if again {
			nl += 9 // (ten parts and more: their numbers do not sort like their names)
		}
		for l := 0; l < nl; l++ {
			fmt.Fprintf(&b, "file %d line %d\n", i, l)
		}
		src.Files = append(src.Files, p)
		w.Sources[p] = b.String()
	}
	s := addNode(w, src)
	sl := 1 + t.Choose(simrt.StGen, 2, 0)
	if again {
		sl = 1
	}
	sp := addNode(w, Node{Name: "split", Kind: KSplitter, SplitLines: sl, Rec: true,
		Ins: []InSpec{{Name: "file", From: []Edge{{s, "out"}}}}, Outs: []OutSpec{{Name: "split_file"}}})
	oneToOne(w, "use", Edge{sp, "split_file"})
	w.MaxTasks = 1 + t.Choose(simrt.StGen, 4, 0)
	w.Bufsize = bufsizeOf(t)
	c.Sample = "FileSplitter with several files: " + sample(w)
	inc := RunInc(w, c.Tape, nil, 0, IncOpts{KillAt: -1, Strategy: strategyOf(c.Tape), Trace: c.Trace})
	c.Absorb(inc)
	c.Tasks = max(c.Tasks, 2)
	if v, ok := inconclusiveEnd(inc); ok {
		return v
	}
	if !completedOK(inc) {
		return Skipped(Viol("no-completion", "", "%s", endDesc(inc)))
	}
	fileIdx := map[string]int{}
	for i, f := range src.Files {
		fileIdx[f] = i
	}
	inOrder := func(rec []string, when string) Verdict {
		lastFile, lastPart := -1, 0
		for _, p := range rec {
			i := strings.LastIndex(p, ".split_")
			if i < 0 {
				continue
			}
			fi, ok := fileIdx[p[:i]]
			part := 0
			fmt.Sscanf(p[i+len(".split_"):], "%d", &part)
			if !ok {
				continue
			}
			if fi < lastFile || (fi == lastFile && part <= lastPart) {
				return Viol("out-of-order", when, "FileSplitter emitted its parts as %v although the files arrived as %v", rec, src.Files)
			}
			lastFile, lastPart = fi, part
		}
		return OK()
	}
	if v := inOrder(inc.RT.Recorded[recKey("split", "split_file", "use", "a")], ""); v.Status != "ok" {
		return v
	}
	if again {
		c.Fault("run-again")
		inc2 := RunInc(w, c.Tape, inc.Sim.FS.Root, inc.Sim.FS.NextIno, IncOpts{KillAt: -1, Strategy: strategyOf(c.Tape), Trace: c.Trace})
		c.Absorb(inc2)
		if v, ok := inconclusiveEnd(inc2); ok {
			return v
		}
		if !completedOK(inc2) {
			return Skipped(Viol("no-completion", "", "second run: %s", endDesc(inc2)))
		}
		return inOrder(inc2.RT.Recorded[recKey("split", "split_file", "use", "a")], "second-run")
	}
	return OK()
}

// selectorOrderCase: IPSelectorSync forwards the accepted tuples on each of
// its out-ports in the order in which they arrived.
func selectorOrderCase(c *Case) Verdict {
	t := c.Tape
	w := &WF{Name: "wf", Sources: map[string]string{}}
	ports := []string{"a", "b", "c"}
	k := 1 + t.Choose(simrt.StGen, 3, 0)
	n := []int{2, 3, 4, 6, 9, 20, 40}[t.Choose(simrt.StGen, 7, 0)]
	s := srcNode(w, "src0", n, "")
	sel := Node{Name: "sel", Kind: KSelector, Rec: true}
	var ups []Edge
	for i := 0; i < k; i++ {
		e := Edge{s, "out"}
		if i > 0 || t.Choose(simrt.StGen, 2, 0) == 1 {
			e = Edge{oneToOne(w, "pre"+ports[i], Edge{s, "out"}), "o0"}
		}
		ups = append(ups, e)
	}
	for i := 0; i < k; i++ {
		sel.Ins = append(sel.Ins, InSpec{Name: ports[i], From: []Edge{ups[i]}})
		sel.Outs = append(sel.Outs, OutSpec{Name: ports[i]})
	}
	ex0 := Eval(w)
	for i := 0; i < k; i++ {
		st := ex0.Streams[w.Nodes[ups[i].Node].Name+"."+ups[i].Port]
		for _, it := range st.Items {
			if t.Choose(simrt.StGen, 4, 0) != 1 {
				sel.Files = append(sel.Files, it.Path)
			}
		}
	}
	si := addNode(w, sel)
	var outs []Edge
	for i := 0; i < k; i++ {
		outs = append(outs, Edge{si, ports[i]})
	}
	zipConsumer(w, "use", outs, ports[:k])
	w.MaxTasks = 1 + t.Choose(simrt.StGen, 5, 0)
	w.Bufsize = bufsizeOf(t)
	c.Sample = "IPSelectorSync order: " + sample(w)
	ex := Eval(w)
	inc := RunInc(w, c.Tape, nil, 0, IncOpts{KillAt: -1, Strategy: strategyOf(c.Tape), Trace: c.Trace})
	c.Absorb(inc)
	outOfOrderProbe(c, inc)
	if v, ok := inconclusiveEnd(inc); ok {
		return v
	}
	if !completedOK(inc) {
		return Skipped(Viol("no-completion", "", "%s", endDesc(inc)))
	}
	for i := 0; i < k; i++ {
		got := inc.RT.Recorded[recKey("sel", ports[i], "use", ports[i])]
		st := ex.Streams["sel."+ports[i]]
		if st == nil {
			continue
		}
		var want []string
		for _, it := range st.Items {
			want = append(want, it.Path)
		}
		if m, x := multisetDiff(append([]string(nil), got...), want); len(m)+len(x) > 0 {
			return Skipped(Viol("selector-tuples", "", "port %s forwarded %v, the accepted tuples are %v", ports[i], got, want))
		}
		if strings.Join(got, " ") != strings.Join(want, " ") {
			return Viol("out-of-order", "", "IPSelectorSync port %s: items left as %v, the accepted tuples arrived as %v", ports[i], got, want)
		}
	}
	return OK()
}

// repeatedInputOrderCase: the same file reaches a process twice with other
// files in between (a source that lists it twice). Whatever the process does
// with the repetition (skip it because the output exists, or refuse because
// the first copy is still in flight - then nothing is claimed), IF the run
// completes its out-port must show the order in which the inputs arrived.
func repeatedInputOrderCase(c *Case) Verdict {
	t := c.Tape
	w := &WF{Name: "wf", Sources: map[string]string{}}
	n := 3 + t.Choose(simrt.StGen, 3, 0)
	s := srcNode(w, "src0", n, "")
	files := w.Nodes[s].Files
	// repeat one of the first files at a later position
	i := t.Choose(simrt.StGen, n-2, 0)
	j := i + 2 + t.Choose(simrt.StGen, n-i-1, 0)
	rep := append([]string(nil), files[:j]...)
	rep = append(rep, files[i])
	rep = append(rep, files[j:]...)
	w.Nodes[s].Files = rep
	p0 := oneToOne(w, "p0", Edge{s, "out"})
	w.Nodes[p0].Rec = true
	oneToOne(w, "use", Edge{p0, "o0"})
	w.MaxTasks = 2 + t.Choose(simrt.StGen, 4, 0)
	w.Bufsize = bufsizeOf(t)
	c.Sample = "one input repeated: " + sample(w)
	inc := RunInc(w, c.Tape, nil, 0, IncOpts{KillAt: -1, Strategy: strategyOf(c.Tape), Trace: c.Trace})
	c.Absorb(inc)
	outOfOrderProbe(c, inc)
	if v, ok := inconclusiveEnd(inc); ok {
		return v
	}
	if !completedOK(inc) {
		c.Probe("repeated-input-refused")
		return OK() // refused / failed: nothing is claimed about order
	}
	got := inc.RT.Recorded[recKey("p0", "o0", "use", "a")]
	var want []string
	for _, f := range rep {
		want = append(want, f+".p0.o0")
	}
	if m, x := multisetDiff(append([]string(nil), got...), append([]string(nil), want...)); len(m)+len(x) > 0 {
		return Skipped(Viol("item-lost", "", "p0 emitted %v for inputs %v", got, rep))
	}
	if strings.Join(got, " ") != strings.Join(want, " ") {
		return Viol("out-of-order", "", "edge p0.o0->use.a: items left as %v, the inputs arrived as %v", got, rep)
	}
	return OK()
}

// combinatorFailCase: a FileCombinator one of whose in-ports gets an empty
// stream while a (slow) task upstream of another port fails: the workflow
// must not report completion just because the product is empty.
func combinatorFailCase(c *Case) Verdict {
	t := c.Tape
	w := &WF{Name: "wf", Sources: map[string]string{}}
	ports := []string{"a", "b", "c"}
	k := 2 + t.Choose(simrt.StGen, 2, 0)
	empty := t.Choose(simrt.StGen, k, 0)
	cmb := Node{Name: "comb", Kind: KFileCombinator}
	for i := 0; i < k; i++ {
		n := 1 + t.Choose(simrt.StGen, 3, 0)
		if i == empty {
			n = 0
		}
		e := Edge{srcNode(w, "src"+ports[i], n, ""), "out"}
		if i != empty {
			e = Edge{oneToOne(w, "pre"+ports[i], e), "o0"}
		}
		cmb.Ins = append(cmb.Ins, InSpec{Name: ports[i], From: []Edge{e}})
		cmb.Outs = append(cmb.Outs, OutSpec{Name: ports[i]})
	}
	ci := addNode(w, cmb)
	var outs []Edge
	for i := 0; i < k; i++ {
		outs = append(outs, Edge{ci, ports[i]})
	}
	zipConsumer(w, "use", outs, ports[:k])
	w.MaxTasks = 1 + t.Choose(simrt.StGen, 4, 0)
	w.Bufsize = bufsizeOf(t)
	ex := Eval(w)
	var cands []*RTask
	for _, tk := range ex.Tasks {
		if strings.HasPrefix(tk.Proc, "pre") {
			cands = append(cands, tk)
		}
	}
	if len(cands) == 0 {
		c.Probe("trivial-case-nothing-to-fail")
		return OK()
	}
	victim := cands[t.Choose(simrt.StFault, len(cands), 0)]
	mode := simrt.FailMode(1 + t.Choose(simrt.StFault, 4, 0))
	fault := &FaultSpec{Key: victim.Key, Mode: mode, Arg: t.Choose(simrt.StFault, 6, 0)}
	what := mode.String() + " upstream of a FileCombinator with an empty port"
	c.Sample = "fail " + victim.Key + " by " + what + ": " + sample(w)
	inc := RunInc(w, c.Tape, nil, 0, IncOpts{KillAt: -1, Strategy: strategyOf(c.Tape), Trace: c.Trace, Fault: fault})
	c.Absorb(inc)
	c.Tasks++
	if !fault.Hit && completedOK(inc) {
		return Skipped(Viol("task-lost", "", "task %s was never executed", victim.Key))
	}
	return failureOracle(inc, ex, victim, what)
}
