// Package harness: workflow IR, generator, builder (IR -> real scipipe API
// calls on the instrumented library), independent reference model, oracles
// and history driver.
package harness

import (
	"fmt"
	"sort"
	"strings"
)

type NodeKind int

const (
	KFileSrc     NodeKind = iota // components.FileSource
	KParamSrc                    // components.ParamSource
	KProc                        // scipipe.Process (shell command `op`, or Go function)
	KMapToTags                   // components.MapToTags
	KStreamToSub                 // components.StreamToSubStream
	KFileCombinator
	KParamCombinator
	KSelector
	KSplitter
	KConcat
	KGlobber
	KFileToParams
	KCmdToParams
	KMultiSub // harness-defined component (public API only): one sub-stream carrier per in-port, sent in port order
)

var kindNames = map[NodeKind]string{KFileSrc: "FileSource", KParamSrc: "ParamSource", KProc: "Process", KMapToTags: "MapToTags",
	KStreamToSub: "StreamToSubStream", KFileCombinator: "FileCombinator", KParamCombinator: "ParamCombinator", KSelector: "IPSelectorSync",
	KSplitter: "FileSplitter", KConcat: "Concatenator", KGlobber: "FileGlobber", KFileToParams: "FileToParamsReader", KCmdToParams: "CommandToParams", KMultiSub: "MultiSubStream(harness)"}

type Edge struct {
	Node int
	Port string
}

type InSpec struct {
	Name string
	From []Edge
	Join bool
	Sep  string
	// Unconnected: port is declared but deliberately left without upstream (C16)
	Unconnected bool
	// Disconnected (with Unconnected): the port is first connected to its first
	// upstream and then disconnected again with InPort.Disconnect
	Disconnected bool
}

type ParamSpec struct {
	Name        string
	Vals        []string // FromStr
	From        *Edge    // out-param-port of another node
	Unconnected bool
}

type OutSpec struct {
	Name    string
	Pattern string // explicit path pattern: {i:x} {i:x|basename} {p:y}, plain text
	Stream  bool
}

type Node struct {
	Name   string
	Kind   NodeKind
	Files  []string // KFileSrc
	Vals   []string // KParamSrc
	Ins    []InSpec
	Params []ParamSpec
	Outs   []OutSpec
	Cores  int
	// Go-function task: 0 none, 1 writes into the task temp dir, 2 uses the
	// documented OutIP.Write idiom
	Custom  int
	Extras  []string
	Barrier int
	BGroup  string // name of a parameter whose value is passed as rendezvous group
	Prefix  string // text put in front of the command, e.g. "false |" (a pipeline)
	Suffix  string // text appended to the command, e.g. "&& false && true" (an && list whose middle step fails)
	Prepend string // Process.Prepend (a launcher such as "nice -n 10")
	PadTo   int
	GlueIn  bool // in-path placeholders glued to an option: -i={i:x}
	NoSpawn bool // Process.Spawn = false (a documented field the library ignores)
	// Nest > 0 (Go-function task): the function builds and runs a small workflow of
	// its own (a source with the task's first input, one process) with Nest slots
	// before it writes its outputs - a second Workflow object alive in the program
	Nest    int
	// Stage 1: the node belongs to a SECOND workflow of the same program, which is
	// built up front together with the first and run after the first has returned
	// (its sources may list files the first workflow produces)
	Stage int
	// HiddenParams (Go-function task): the parameter ports are not mentioned in
	// the command pattern or the output paths (created with InParam only); the
	// function reads the values with task.Param - an empty string is then a value
	HiddenParams bool
	// OutNotInCmd: the out-ports exist through SetOut only; the command names its
	// output files itself (a tool that derives them from a prefix), so there is no
	// {o:...} placeholder in the command pattern
	OutNotInCmd bool
	Note    string // a literal extra word on the command line (-note W: no influence on the result), e.g. one with a % sign
	LongArg int  // > 0: the command line carries an extra word of that many bytes (-note W: no influence on the result)
	Say     int  // > 0: the command prints that many bytes WITHOUT a newline on its standard output (a progress bar)
	Head    int  // > 0: the command reads only the first Head bytes of each input and closes it (head -c)
	TouchIn bool // the command re-writes its first input in place (same bytes, later mtime)
	BgLate  bool // the command returns at once; a helper it leaves behind creates the first output only later
	BgTail  bool // the command returns while a child of it still writes the rest of the first output
	// TagArgs: "port.key" names of tags (scipipe qualifies a task's tags with the
	// in-port they arrived on) whose values the command receives through
	// {t:port.key} placeholders (as -p tg_<port>_<key>=<value>: they enter the result)
	TagArgs []string
	// TagGroups > 0 (MapToTags): the tag value is one of that many group names
	// (a function of the path) instead of a value unique to the file;
	// GroupBy (Concatenator): GroupByTag
	TagGroups int
	TagSkip   int // with TagGroups: about one file in TagSkip gets no tag at all
	GroupBy   string
	JoinMod string // a second occurrence of the first joined in-port, with this modifier, passed as -note
	Rec     bool // a pass-through recorder is attached to every out-port edge
	// components
	SplitLines int
	TagKey     string
	OutPath    string
	ZeroCores  bool // CoresPerTask = 0: the tasks take no slot
	Globs      []string
	Dup        bool // (FileGlobber) the patterns overlap: some file is emitted more than once
	FilePath   string
	Pred       string // selector predicate: "all", "even", "none"
}

type WF struct {
	Name        string
	Nodes       []Node
	MaxTasks    int
	Bufsize     int // 0: SCIPIPE_BUFSIZE unset (default 128)
	Sources     map[string]string
	Dirs        []string // directories that exist before the run (absolute)
	RunTo       []string
	RunToMode   int  // 0 names, 1 regex, 2 procs
	// Parallel: a second, small workflow (source "second_in.txt", one process) is
	// created and run by the main goroutine while the first one runs in a
	// goroutine of its own
	Parallel    bool
	// ParallelSlots / ParallelFiles: slots and number of input files (= tasks) of
	// that second workflow (0: two slots, one file, a two-core task)
	ParallelSlots, ParallelFiles int
	// Twin: the program builds the workflow twice and runs both instances
	// concurrently (two users re-running the same finished workflow at once)
	Twin        bool
	Ghost       string // a path given to a FileSource although no such file exists
	RunToNone   bool // RunTo* is called with a target set that selects no process at all
	FullLogging bool // do not lower the log level: NewWorkflow sets up audit logging to stdout + file
	// Rounds: further runs of the same workflow inside the SAME process (a driver
	// program that builds and runs it again): before round i the listed files
	// (absolute paths) are deleted together with their audit files
	Rounds [][]string
}

func (w *WF) NodeByName(n string) *Node {
	for i := range w.Nodes {
		if w.Nodes[i].Name == n {
			return &w.Nodes[i]
		}
	}
	return nil
}

// Describe renders the workflow as readable text (evidence samples, replays).
func (w *WF) Describe() string {
	var b strings.Builder
	fmt.Fprintf(&b, "workflow %s maxTasks=%d bufsize=%d", w.Name, w.MaxTasks, w.Bufsize)
	if len(w.RunTo) > 0 {
		fmt.Fprintf(&b, " RunTo(mode %d)=%v", w.RunToMode, w.RunTo)
	}
	if w.Twin {
		b.WriteString(" x2 (two instances of this workflow run concurrently)")
	}
	if w.Parallel {
		b.WriteString(" +a second workflow created and run concurrently")
	}
	if w.RunToNone {
		fmt.Fprintf(&b, " RunTo(mode %d) with an EMPTY target set", w.RunToMode)
	}
	b.WriteString("\n")
	var srcs []string
	for p := range w.Sources {
		srcs = append(srcs, p)
	}
	sort.Strings(srcs)
	fmt.Fprintf(&b, "  source files: %v\n", srcs)
	for _, n := range w.Nodes {
		fmt.Fprintf(&b, "  %s [%s]", n.Name, kindNames[n.Kind])
		if n.Kind == KFileSrc {
			fmt.Fprintf(&b, " files=%v", n.Files)
		}
		if n.Kind == KParamSrc {
			fmt.Fprintf(&b, " vals=%v", n.Vals)
		}
		for _, in := range n.Ins {
			fmt.Fprintf(&b, " in:%s", in.Name)
			if in.Join {
				fmt.Fprintf(&b, "|join:%q", in.Sep)
			}
			if in.Unconnected {
				b.WriteString("<unconnected>")
			}
			for _, e := range in.From {
				fmt.Fprintf(&b, "<-%s.%s", w.Nodes[e.Node].Name, e.Port)
			}
		}
		for _, p := range n.Params {
			fmt.Fprintf(&b, " param:%s", p.Name)
			if p.From != nil {
				fmt.Fprintf(&b, "<-%s.%s", w.Nodes[p.From.Node].Name, p.From.Port)
			} else if p.Unconnected {
				b.WriteString("<unconnected>")
			} else {
				fmt.Fprintf(&b, "=%v", p.Vals)
			}
		}
		for _, o := range n.Outs {
			s := ""
			if o.Stream {
				s = "(stream)"
			}
			fmt.Fprintf(&b, " out:%s%s=%q", o.Name, s, o.Pattern)
		}
		if n.Cores > 1 {
			fmt.Fprintf(&b, " cores=%d", n.Cores)
		}
		if n.Custom != 0 {
			fmt.Fprintf(&b, " gofunc=%d", n.Custom)
		}
		if n.OutNotInCmd {
			b.WriteString(" outputs-named-by-the-command-itself")
		}
		if n.HiddenParams {
			b.WriteString(" params-only-read-by-the-function")
		}
		if n.Nest > 0 {
			fmt.Fprintf(&b, " runs-a-nested-workflow(slots=%d)", n.Nest)
		}
		if n.Stage > 0 {
			b.WriteString(" [second workflow, built up front, run afterwards]")
		}
		if n.Prepend != "" {
			fmt.Fprintf(&b, " prepend=%q", n.Prepend)
		}
		if n.Head > 0 {
			fmt.Fprintf(&b, " reads-only-first=%d", n.Head)
		}
		if n.Say > 0 {
			fmt.Fprintf(&b, " prints-%d-bytes-without-newline", n.Say)
		}
		if n.LongArg > 0 {
			fmt.Fprintf(&b, " command-line-with-a-%d-byte-word", n.LongArg)
		}
		if n.Note != "" {
			fmt.Fprintf(&b, " note=%q", n.Note)
		}
		if n.NoSpawn {
			b.WriteString(" spawn=false")
		}
		if n.Prefix != "" {
			fmt.Fprintf(&b, " prefix=%q", n.Prefix)
		}
		if n.Suffix != "" {
			fmt.Fprintf(&b, " suffix=%q", n.Suffix)
		}
		if len(n.Extras) > 0 {
			fmt.Fprintf(&b, " extras=%v", n.Extras)
		}
		if n.Barrier > 0 {
			fmt.Fprintf(&b, " barrier=%d", n.Barrier)
		}
		if n.Rec {
			b.WriteString(" +recorders")
		}
		b.WriteString("\n")
	}
	return b.String()
}
