// Command worker runs simulated cases of one property check in one OS process
// (scipipe has package-level state: one simulation at a time per process).
package main

import (
	"encoding/json"
	"flag"
	"fmt"
	"os"
	"runtime"
	"runtime/debug"
	"sort"
	"strings"
	"time"

	"verif/harness"
	"verif/simrt"
)

type Known struct {
	ID       string   `json:"id"`
	Property string   `json:"property"`
	Status   string   `json:"status"`
	Clause   string   `json:"clause"`
	Clauses  []string `json:"clauses,omitempty"`
	Sig      string   `json:"sig"`
	What     string   `json:"what"`
	Commit   string   `json:"commit,omitempty"`
	Replay   string   `json:"replay,omitempty"`
}

type Replay struct {
	Property string              `json:"property"`
	Tier     string              `json:"tier"`
	Seed     uint64              `json:"seed"`
	CaseSeed uint64              `json:"case_seed"`
	Index    int                 `json:"index"`
	Clause   string              `json:"clause"`
	Sig      string              `json:"sig"`
	Detail   string              `json:"detail"`
	Hash     string              `json:"event_log_hash"`
	Streams  map[string][]uint32 `json:"tape"`
	Workflow string              `json:"workflow"`
	Trace    []string            `json:"trace"`
	Shrink   map[string]int      `json:"shrink"`
	TreeHash string              `json:"tree_hash"`
}

type Violation struct {
	Index  int    `json:"index"`
	Clause string `json:"clause"`
	Sig    string `json:"sig"`
	Detail string `json:"detail"`
	Replay string `json:"replay"`
}

type Result struct {
	Property     string         `json:"property"`
	Tier         string         `json:"tier"`
	Seed         uint64         `json:"seed"`
	Worker       int            `json:"worker"`
	Cases        int            `json:"cases"`
	Incarnations int            `json:"incarnations"`
	Steps        int            `json:"steps"`
	SimNS        int64          `json:"sim_ns"`
	CrashStates  int            `json:"crash_states"`
	WallS        float64        `json:"wall_s"`
	Inconclusive int            `json:"inconclusive"`
	Skipped      int            `json:"skipped_precondition"`
	SkippedWhy   map[string]int `json:"skipped_why"`
	InconcWhy    map[string]int `json:"inconclusive_why"`
	InconcCases  []string       `json:"inconclusive_cases"`
	Violations   []Violation    `json:"violations"`
	Masked       map[string]int `json:"masked_by_known_finding"`
	Faults       map[string]int `json:"faults"`
	Probes       map[string]int `json:"probes"`
	Hashes       []string       `json:"nontrivial_hashes"`
	Samples      []string       `json:"samples"`
	Error        string         `json:"error,omitempty"`
}

var memDebug = os.Getenv("VERIF_MEMDEBUG") != ""

func mix(seed uint64, idx int) uint64 {
	x := seed*0x9e3779b97f4a7c15 + uint64(idx)*0xbf58476d1ce4e5b9 + 0x94d049bb133111eb
	x ^= x >> 31
	x *= 0xd6e8feb86659fd93
	x ^= x >> 29
	return x
}

func streamsToMap(s harness.Streams) map[string][]uint32 {
	m := map[string][]uint32{}
	for i, v := range s {
		m[simrt.StreamNames[i]] = v
	}
	return m
}

func mapToStreams(m map[string][]uint32) harness.Streams {
	var s harness.Streams
	for i, n := range simrt.StreamNames {
		s[i] = m[n]
	}
	return s
}

func loadKnown(path string) []Known {
	var ks []Known
	if path == "none" {
		return nil
	}
	b, err := os.ReadFile(path)
	if err != nil {
		return nil
	}
	if err := json.Unmarshal(b, &ks); err != nil {
		fmt.Fprintln(os.Stderr, "worker: cannot parse", path, err)
		os.Exit(2)
	}
	return ks
}

// sigMatch: exact match, or a pattern whose '*' stands for any text.
func sigMatch(pattern, sig string) bool {
	if !strings.Contains(pattern, "*") {
		return pattern == sig
	}
	parts := strings.Split(pattern, "*")
	if !strings.HasPrefix(sig, parts[0]) || !strings.HasSuffix(sig, parts[len(parts)-1]) {
		return false
	}
	rest := sig
	for _, p := range parts {
		i := strings.Index(rest, p)
		if i < 0 {
			return false
		}
		rest = rest[i+len(p):]
	}
	return true
}

func matchKnown(ks []Known, v harness.Verdict) *Known {
	for i := range ks {
		k := &ks[i]
		if k.Status != "known" || k.Sig == "" || !sigMatch(k.Sig, v.Sig) {
			continue
		}
		if k.Clause == v.Clause {
			return k
		}
		for _, c := range k.Clauses {
			if c == v.Clause {
				return k
			}
		}
	}
	return nil
}

func installKnown(known []Known) {
	harness.KnownMatcher = func(v harness.Verdict) string {
		if k := matchKnown(known, v); k != nil {
			return k.ID
		}
		return ""
	}
}

func main() {
	// a runaway recursion in the program under test is reported quickly
	debug.SetMaxStack(128 << 20)
	if len(os.Args) < 2 {
		fmt.Fprintln(os.Stderr, "usage: worker run|replay ...")
		os.Exit(2)
	}
	switch os.Args[1] {
	case "run":
		run(os.Args[2:])
	case "replay":
		replay(os.Args[2:])
	case "one":
		one(os.Args[2:])
	case "export":
		export(os.Args[2:])
	case "rules":
		m := map[string]string{}
		for id, c := range harness.Checks {
			m[id] = c.Rule
		}
		b, _ := json.Marshal(m)
		fmt.Println(string(b))
	case "list":
		var ids []string
		for id := range harness.Checks {
			ids = append(ids, id)
		}
		sort.Strings(ids)
		for _, id := range ids {
			fmt.Println(id, harness.Checks[id].Level)
		}
	default:
		os.Exit(2)
	}
}

func run(args []string) {
	fs := flag.NewFlagSet("run", flag.ExitOnError)
	prop := fs.String("prop", "", "")
	tier := fs.String("tier", "quick", "")
	seed := fs.Uint64("seed", 1, "")
	wk := fs.Int("worker", 0, "")
	nw := fs.Int("nworkers", 1, "")
	budget := fs.Float64("budget", 10, "seconds")
	maxCases := fs.Int("maxcases", 0, "")
	out := fs.String("out", "", "")
	replayDir := fs.String("replaydir", "replays", "")
	knownPath := fs.String("known", "known_findings.json", "")
	treeHash := fs.String("treehash", "", "")
	shrinkS := fs.Float64("shrink", 30, "seconds")
	caseTimeout := fs.Float64("casetimeout", 120, "wall-clock seconds after which a single case counts as hanging")
	hashlog := fs.Bool("hashlog", false, "print one line per case (index, event-log hash, verdict) instead of a result")
	fs.Parse(args)
	ch := harness.Checks[*prop]
	res := &Result{Property: *prop, Tier: *tier, Seed: *seed, Worker: *wk, Masked: map[string]int{}, Faults: map[string]int{}, Probes: map[string]int{}, InconcWhy: map[string]int{}, SkippedWhy: map[string]int{}}
	write := func() {
		b, _ := json.Marshal(res)
		if *out == "" {
			fmt.Println(string(b))
		} else {
			os.WriteFile(*out, b, 0666)
		}
	}
	if ch == nil {
		res.Error = "unknown property " + *prop
		write()
		os.Exit(2)
	}
	known := loadKnown(*knownPath)
	installKnown(known)
	start := time.Now()
	var watchdog *time.Timer
	hashes := map[uint64]bool{}
	for n := 0; ; n++ {
		if *maxCases > 0 && n >= *maxCases {
			break
		}
		if time.Since(start).Seconds() > *budget {
			break
		}
		idx := *wk + n*(*nw)
		if *out != "" {
			os.WriteFile(*out+".progress", []byte(fmt.Sprint(idx)), 0666)
		}
		if watchdog != nil {
			watchdog.Stop()
		}
		watchdog = time.AfterFunc(time.Duration(*caseTimeout*float64(time.Second)), func() {
			if !harness.InProgram.Load() {
				fmt.Fprintf(os.Stderr, "worker: HARNESS-SLOW: case %d is not finished after %.0fs of wall-clock time, and no simulated program is running: the time goes into the harness's own code (generator, reference model or oracle)\n", idx, *caseTimeout)
				os.Exit(98)
			}
			fmt.Fprintf(os.Stderr, "worker: case %d does not finish within %.0fs of wall-clock time\n", idx, *caseTimeout)
			os.Exit(97)
		})
		cs := mix(*seed, idx)
		t := simrt.NewTape(cs)
		c := harness.NewCase(*prop, *tier, t)
		v := ch.Run(c)
		for k, x := range c.Masked {
			res.Masked[k] += x
		}
		if *hashlog {
			fmt.Printf("%d %016x %s %s %d\n", idx, c.Hash, v.Status, v.Clause, c.Steps)
			continue
		}
		if memDebug {
			var ms runtime.MemStats
			runtime.ReadMemStats(&ms)
			if ms.HeapAlloc > 1<<30 {
				smp := c.Sample
				if len(smp) > 600 {
					smp = smp[:600]
				}
				fmt.Fprintf(os.Stderr, "MEMDEBUG case %d heap %d MB steps %d incs %d: %s\n", idx, ms.HeapAlloc>>20, c.Steps, c.Incs, smp)
				runtime.GC()
			}
		}
		res.Cases++
		res.Incarnations += c.Incs
		res.Steps += c.Steps
		res.SimNS += c.SimNS
		res.CrashStates += c.CrashStates
		for k, x := range c.Faults {
			res.Faults[k] += x
		}
		for k, x := range c.Probes {
			res.Probes[k] += x
		}
		nontrivial := c.Tasks >= 2 && t.NonZeroTotal() > 0
		if nontrivial {
			hashes[c.Hash] = true
		}
		if len(res.Samples) < 3 && nontrivial && idx%7 == 0 {
			res.Samples = append(res.Samples, fmt.Sprintf("case %d (seed %d): %s", idx, cs, c.Sample))
		}
		switch v.Status {
		case "inconclusive":
			res.Inconclusive++
			res.InconcWhy[v.Detail]++
			if len(res.InconcCases) < 3 {
				smp := c.Sample
				if len(smp) > 1500 {
					smp = smp[:1500] + "..."
				}
				res.InconcCases = append(res.InconcCases, fmt.Sprintf("case index %d (%s, steps %d): %s", idx, v.Detail, c.Steps, smp))
			}
		case "skipped":
			res.Skipped++
			res.SkippedWhy[v.Clause]++
		case "violation":
			if k := matchKnown(known, v); k != nil {
				res.Masked[k.ID]++
				continue
			}
			// minimise, then write the replay file
			used := t.UsedStreams()
			before := 0
			for _, s := range used {
				before += len(s)
			}
			best, tries := harness.Shrink(ch, *tier, cs, used, v, time.Duration(*shrinkS*float64(time.Second)))
			c2, v2 := harness.RunWithStreams(ch, *tier, cs, best, true)
			if v2.Status != "violation" || v2.Clause != v.Clause || v2.Sig != v.Sig {
				res.Error = fmt.Sprintf("case %d: minimised tape does not reproduce (%s/%s vs %s/%s)", idx, v2.Clause, v2.Sig, v.Clause, v.Sig)
				write()
				os.Exit(2)
			}
			after := 0
			for _, s := range best {
				after += len(s)
			}
			rp := Replay{Property: *prop, Tier: *tier, Seed: *seed, CaseSeed: cs, Index: idx, Clause: v2.Clause, Sig: v2.Sig, Detail: v2.Detail,
				Hash: fmt.Sprintf("%016x", c2.Hash), Streams: streamsToMap(best), Workflow: c2.Sample, Trace: c2.TraceLog,
				Shrink: map[string]int{"tape_len_before": before, "tape_len_after": after, "attempts": tries}, TreeHash: *treeHash}
			os.MkdirAll(*replayDir, 0777)
			path := fmt.Sprintf("%s/%s-%d-%d.json", *replayDir, *prop, *seed, idx)
			b, _ := json.MarshalIndent(rp, "", " ")
			os.WriteFile(path, b, 0666)
			res.Violations = append(res.Violations, Violation{Index: idx, Clause: v2.Clause, Sig: v2.Sig, Detail: v2.Detail, Replay: path})
		}
		if len(res.Violations) > 0 {
			break
		}
	}
	for h := range hashes {
		res.Hashes = append(res.Hashes, fmt.Sprintf("%016x", h))
	}
	sort.Strings(res.Hashes)
	if watchdog != nil {
		watchdog.Stop()
	}
	res.WallS = time.Since(start).Seconds()
	if !*hashlog {
		write()
	}
}

func replay(args []string) {
	fs := flag.NewFlagSet("replay", flag.ExitOnError)
	file := fs.String("file", "", "")
	verbose := fs.Bool("v", false, "")
	knownPath := fs.String("known", "known_findings.json", "")
	fs.Parse(args)
	installKnown(loadKnown(*knownPath))
	b, err := os.ReadFile(*file)
	if err != nil {
		fmt.Fprintln(os.Stderr, err)
		os.Exit(2)
	}
	var rp Replay
	if err := json.Unmarshal(b, &rp); err != nil {
		fmt.Fprintln(os.Stderr, err)
		os.Exit(2)
	}
	ch := harness.Checks[rp.Property]
	if ch == nil {
		fmt.Fprintln(os.Stderr, "unknown property", rp.Property)
		os.Exit(2)
	}
	c, v := harness.RunWithStreams(ch, rp.Tier, rp.CaseSeed, mapToStreams(rp.Streams), true)
	outp := map[string]any{"status": v.Status, "clause": v.Clause, "sig": v.Sig, "detail": v.Detail, "event_log_hash": fmt.Sprintf("%016x", c.Hash),
		"same_violation": v.Status == "violation" && v.Clause == rp.Clause && v.Sig == rp.Sig, "same_hash": fmt.Sprintf("%016x", c.Hash) == rp.Hash}
	jb, _ := json.Marshal(outp)
	fmt.Println(string(jb))
	if *verbose {
		fmt.Println(c.Sample)
		for _, l := range c.TraceLog {
			fmt.Println(l)
		}
	}
}

// one runs a single case (by index) in this fresh process: used to confirm
// that a case which killed or hung a worker does so deterministically.
func one(args []string) {
	fs := flag.NewFlagSet("one", flag.ExitOnError)
	prop := fs.String("prop", "", "")
	tier := fs.String("tier", "quick", "")
	seed := fs.Uint64("seed", 1, "")
	idx := fs.Int("index", 0, "")
	caseTimeout := fs.Float64("casetimeout", 60, "")
	knownPath := fs.String("known", "known_findings.json", "")
	dump := fs.Bool("dump", false, "print the event log of every incarnation of the case")
	fs.Parse(args)
	installKnown(loadKnown(*knownPath))
	ch := harness.Checks[*prop]
	if ch == nil {
		os.Exit(2)
	}
	time.AfterFunc(time.Duration(*caseTimeout*float64(time.Second)), func() {
		if !harness.InProgram.Load() {
			fmt.Fprintf(os.Stderr, "worker: HARNESS-SLOW: case %d is not finished after %.0fs of wall-clock time, and no simulated program is running: the time goes into the harness's own code (generator, reference model or oracle)\n", *idx, *caseTimeout)
			os.Exit(98)
		}
		fmt.Fprintf(os.Stderr, "worker: case %d does not finish within %.0fs of wall-clock time\n", *idx, *caseTimeout)
		os.Exit(97)
	})
	t := simrt.NewTape(mix(*seed, *idx))
	c := harness.NewCase(*prop, *tier, t)
	c.Trace = *dump
	v := ch.Run(c)
	b, _ := json.Marshal(map[string]any{"status": v.Status, "clause": v.Clause, "sig": v.Sig, "detail": v.Detail})
	fmt.Println(string(b))
	if *dump {
		fmt.Println(c.Sample)
		for _, l := range c.TraceLog {
			fmt.Println(l)
		}
	}
}

// export writes one generated case (IR + reference result) as JSON for the
// native fidelity runner.
func export(args []string) {
	fs := flag.NewFlagSet("export", flag.ExitOnError)
	seed := fs.Uint64("seed", 1, "")
	idx := fs.Int("index", 0, "")
	out := fs.String("out", "", "")
	fs.Parse(args)
	t := simrt.NewTape(mix(*seed, *idx))
	w, files, keys := harness.ExportCase(t)
	b, _ := json.Marshal(map[string]any{"WF": w, "Files": files, "Keys": keys})
	if *out == "" {
		fmt.Println(string(b))
	} else {
		os.WriteFile(*out, b, 0666)
	}
}
