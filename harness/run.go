package harness

import (
	"fmt"
	"sort"
	"strings"
	"sync/atomic"

	"verif/simrt"
)

// One incarnation = one run of the workflow program as an OS process would
// see it: starts on whatever the file system holds, ends by returning,
// exiting, crashing, deadlocking or being killed.

type IncOpts struct {
	KillAt     int // <0: never
	NoFDFrom, NoFDLen int // simrt.Config: descriptor exhaustion window
	DiskFullAt int // >0: the n-th Go-level write below a task temp dir is short and fails with ENOSPC
	ClockGran  int64
	Race       bool
	Trace      bool
	PipeCap    int
	Strategy   simrt.Strategy
	StepCap    int
	Snapshots  bool // clone the fs after every journal entry (crash-state enumeration)
	// SnapOne != 0: keep ONE crash state, chosen uniformly among all journal
	// entries by reservoir sampling from a private PRNG seeded with this value
	// (one tape draw decides; memory stays linear for long runs)
	SnapOne  uint64
	Fault    *FaultSpec
	Fault2   *FaultSpec // a second, independent failure in the same run
	NoDur    bool
	NoEarlyTimers bool // simrt.Config.NoEarlyTimers
	MinDur   int64 // lower bound for command durations (coarse-clock runs)
	TZOffset int   // local time zone of this incarnation (seconds east of UTC)
	GapNS    int64 // wall-clock time between the end of this incarnation and the next (default 1h)
	OnStep   func(inc *Inc)
	// InjectAt > 0: at that simulator step somebody outside the workflow (the
	// user, another program) puts InjectData at InjectPath
	InjectAt   int
	InjectPath string
	InjectData []byte
}

type FaultSpec struct {
	Key  string // task key of the command that fails ("" = by sequence number)
	Seq  int
	Mode simrt.FailMode
	Arg  int
	Hit  bool
}

type Snap struct {
	JSeq    int
	Step    int
	Root    *simrt.Inode
	NextIno int
	Entry   simrt.JEntry
	Running []string // task keys of commands in flight at this instant
}

type Inc struct {
	W       *WF
	Sim     *simrt.Sim
	RT      *Runtime
	Snaps   []Snap
	StartFS *simrt.Inode
	Viol    []string // invariant violations raised by OnStep hooks
}

// incEpoch: the wall clock is forward-only across the incarnations of one
// case (each incarnation starts an hour after the previous one ended).
var incEpoch int64

const baseEpoch = 1790000000 * 1e9

var durations = []int64{0, 1e6, 1e7, 1e8, 1e9, 1e10, 1e11, 1e12}

// InitFS builds the initial file system of a workflow: working directory,
// pre-existing directories and source files.
func InitFS(s *simrt.Sim, w *WF) {
	for _, d := range w.Dirs {
		s.FS.PutFile(d+"/.keep", nil)
	}
	var ps []string
	for p := range w.Sources {
		ps = append(ps, p)
	}
	sort.Strings(ps)
	for _, p := range ps {
		s.FS.PutFile(Abs(p), []byte(w.Sources[p]))
	}
}

// InProgram: a simulated program is being executed right now (read by the
// worker's wall-clock watchdog: a case that does not finish while this is unset
// is stuck in the harness's own code - harness trouble, not a finding).
var InProgram atomic.Bool

func RunInc(w *WF, t *simrt.Tape, root *simrt.Inode, nextIno int, o IncOpts) *Inc {
	cfg := simrt.Config{Strategy: o.Strategy, KillAt: o.KillAt, DiskFullAt: o.DiskFullAt, NoFDFrom: o.NoFDFrom, NoFDLen: o.NoFDLen, ClockGran: o.ClockGran, TraceOn: o.Trace, Race: o.Race,
		PipeCap: o.PipeCap, NoEarlyTimers: o.NoEarlyTimers, TimerPick: 0.03, StepCap: o.StepCap, Env: map[string]string{}}
	if w.Bufsize > 0 {
		cfg.Env["SCIPIPE_BUFSIZE"] = fmt.Sprint(w.Bufsize)
	}
	cfg.Epoch = baseEpoch + incEpoch
	cfg.TZOffset = o.TZOffset
	s := simrt.NewSim(t, cfg)
	defer func() {
		gap := o.GapNS
		if gap == 0 {
			gap = 3600e9
		}
		incEpoch += s.SimTimeNS() + gap
	}()
	inc := &Inc{W: w, Sim: s, RT: &Runtime{Recorded: map[string][]string{}}}
	if root != nil {
		s.FS.Adopt(root.Clone(), nextIno)
	} else {
		InitFS(s, w)
	}
	inc.StartFS = s.FS.Snapshot()
	s.Shell.Plan = func(op *simrt.OpInst) {
		if !o.NoDur {
			op.DurNS = durations[t.Choose(simrt.StDur, len(durations), 0.3)]
		}
		if op.DurNS < o.MinDur {
			op.DurNS = o.MinDur
		}
		op.Chunks = 1 + t.Choose(simrt.StDur, 3, 0.5)
		for _, f := range []*FaultSpec{o.Fault, o.Fault2} {
			if f != nil && !f.Hit && op.Fail == simrt.FailNone {
				if (f.Key != "" && f.Key == op.Key) || (f.Key == "" && f.Seq == op.Seq) {
					f.Hit = true
					op.Fail = f.Mode
					op.FailArg = f.Arg
				}
			}
		}
	}
	if o.Snapshots {
		s.FS.OnMutate = func(e simrt.JEntry) {
			var running []string
			for _, r := range s.Shell.Running() {
				running = append(running, r.Key)
			}
			inc.Snaps = append(inc.Snaps, Snap{JSeq: e.Seq, Step: s.Steps, Root: s.FS.Snapshot(), NextIno: s.FS.NextIno, Entry: e, Running: running})
		}
	}
	if o.SnapOne != 0 && !o.Snapshots {
		x := o.SnapOne*0x9e3779b97f4a7c15 + 0x94d049bb133111eb
		k := uint64(0)
		s.FS.OnMutate = func(e simrt.JEntry) {
			k++
			x ^= x << 13
			x ^= x >> 7
			x ^= x << 17
			if x%k != 0 {
				return
			}
			var running []string
			for _, r := range s.Shell.Running() {
				running = append(running, r.Key)
			}
			inc.Snaps = []Snap{{JSeq: e.Seq, Step: s.Steps, Root: s.FS.Snapshot(), NextIno: s.FS.NextIno, Entry: e, Running: running}}
		}
	}
	if o.OnStep != nil {
		s.OnStep = func() { o.OnStep(inc) }
	}
	if o.InjectAt > 0 {
		prev := s.OnStep
		injected := false
		s.OnStep = func() {
			if !injected && s.Steps >= o.InjectAt {
				injected = true
				if simrt.Find(s.FS.Root, o.InjectPath) == nil {
					s.FS.PutFile(o.InjectPath, o.InjectData)
					s.Fault("file-appears-from-outside")
				}
			}
			if prev != nil {
				prev()
			}
		}
	}
	InProgram.Store(true)
	s.Run(func() { Program(w, inc.RT) })
	InProgram.Store(false)
	return inc
}

// --- helpers over file-system trees ------------------------------------------------

func isTmpName(name string) bool  { return strings.HasPrefix(name, "_scipipe_tmp") }
func isFifoName(name string) bool { return strings.HasSuffix(name, ".fifo") }

// WorkFiles lists regular files below /work (and the pre-existing external
// dirs), skipping log/ .
func WorkFiles(root *simrt.Inode) map[string]simrt.Entry {
	out := map[string]simrt.Entry{}
	for _, e := range simrt.List(root) {
		if strings.HasPrefix(e.Path, "/work/log/") || e.Path == "/work/log" {
			continue
		}
		if strings.HasPrefix(e.Path, "/tmp") {
			continue
		}
		out[e.Path] = e
	}
	return out
}

// Leftovers returns temp directories and FIFOs found anywhere in the tree.
func Leftovers(root *simrt.Inode) []string {
	var r []string
	for _, e := range simrt.List(root) {
		b := baseName(e.Path)
		if e.Kind == simrt.KDir && isTmpName(b) {
			r = append(r, e.Path)
		}
		if e.Kind == simrt.KFifo || isFifoName(b) {
			r = append(r, e.Path)
		}
	}
	return r
}

// underTmp reports whether path lies inside a _scipipe_tmp* directory.
func underTmp(path string) bool {
	for _, c := range strings.Split(path, "/") {
		if isTmpName(c) {
			return true
		}
	}
	return false
}

// Cleanup removes what the property statements call "leftover temp
// directories and FIFOs": entries named _scipipe_tmp* and *.fifo.
func Cleanup(root *simrt.Inode) *simrt.Inode {
	c := root.Clone()
	var rec func(n *simrt.Inode)
	rec = func(n *simrt.Inode) {
		for name, ch := range n.Ents {
			if (ch.Kind == simrt.KDir && isTmpName(name)) || ch.Kind == simrt.KFifo {
				delete(n.Ents, name)
				continue
			}
			if ch.Kind == simrt.KDir {
				rec(ch)
			}
		}
	}
	rec(c)
	return c
}

func execKeys(tr []simrt.TraceEvent, kind string, code int) []string {
	var ks []string
	for _, e := range tr {
		if e.Kind == kind && (kind == "start" || e.Code == code) {
			ks = append(ks, e.Key)
		}
	}
	sort.Strings(ks)
	return ks
}
