package harness

import (
	"fmt"
	"sort"
	"strings"

	"verif/simrt"
)

// C12: no data races. The worker for this check is built from the race
// instrumentation of the rewriter (map operations, fields through pointers,
// json object graphs); the simulator's vector-clock checker reports pairs of
// accesses that are unordered by the simulated synchronisation alone.

var profC12 = Profile{
	MaxProcs: 5, MaxItems: 3, Bufsizes: []int{0, 1, 2}, MaxSlots: 4,
	Params: true, MultiOut: true, FanIn: true, FanOut: true, NoPort: true, Custom: true,
	Subdirs: true, Cores: true, TwoSources: true, Zip: true, ParamSrc: true, Taggers: true, Joins: true, Sinkless: true, EmptyOuts: true,
}

func stripLine(site string) string {
	if i := strings.LastIndex(site, "@"); i >= 0 {
		return site[:i]
	}
	return site
}

// raceSig: the two sites without line numbers, sorted.
func raceSig(r simrt.RaceReport) string {
	a, b := stripLine(r.A), stripLine(r.B)
	if a > b {
		a, b = b, a
	}
	return a + " <-> " + b
}

func init() {
	Register(&Check{ID: "C12", Level: "exploration",
		Rule: "one case = one generated workflow (emphasis on fan-out of one out-port to several consumers incl. tagging components, fan-in with concurrent port closing, multi-core tasks, parameter feeders, RunTo; also streaming pairs, lazily loaded records, 2-3 taggers in a row, one or two failing commands) run under one tape-chosen schedule on the race-instrumented build; the in-simulator happens-before checker (vector clocks, edges only from go / channel send-receive / close / mutex / WaitGroup as in the Go memory model) reports every pair of conflicting accesses to a tracked location (maps, struct fields reached through pointers, object graphs handed to encoding/json) that is unordered in that execution. Round 5: bundled components (C19 shapes), a second workflow created and run concurrently, nested workflows. Round 6: indexed slice elements are tracked; two Concatenator branches side by side. Round 7: one file through two FileSources. distinct = event-log hash; non-trivial = >=2 tasks and >=1 non-default choice",
		Run: func(c *Case) Verdict {
			var w *WF
			if c.Tape.Choose(simrt.StGen, 14, 0) == 1 {
				return sameFileTwiceCase(c)
			}
			switch c.Tape.Choose(simrt.StGen, 9, 0) {
			case 5:
				// two gathering components side by side in one workflow: whatever
				// package-level state the component code keeps is shared by them
				w = twoConcatWF(c)
				c.Probe("race-two-components-shape")
			case 4:
				// one of the bundled components in its small harness workflow (C19's
				// shapes): combinators with several in-ports, selector, splitter,
				// concatenator, globbers, parameter readers
				w, _ = componentCaseWellFormed(c)
				c.Probe("race-component-shape")
			case 1:
				w = lazyIPFanoutWF(c)
			case 2:
				w = streamWF(c) // the consumer holds the streamed IP while the producer still works on it
			case 3:
				w = taggerChainWF(c) // a linear stream through two tagging components in a row
			default:
				w = Generate(c.Tape, tierProfile(profC12, c.Tier))
				AddTagArgs(c.Tape, w)
				if c.Tape.Choose(simrt.StGen, 5, 0) == 1 {
					pickRunTo(c.Tape, w)
				}
			}
			// programs with more than one Workflow object: a second workflow created and
			// run while the first is running, or a Go-function task that runs a nested
			// workflow (package-level state - loggers, counters - is shared by them)
			switch c.Tape.Choose(simrt.StGen, 8, 0) {
			case 1:
				w.Parallel = true
				w.Sources["second_in.txt"] = "input of the second workflow\n"
				c.Probe("two-workflows-in-parallel")
			case 2:
				for i := range w.Nodes {
					if n := &w.Nodes[i]; n.Kind == KProc && n.Custom != 0 && len(n.Ins) > 0 && !n.Ins[0].Join {
						n.Nest = 1 + c.Tape.Choose(simrt.StGen, 2, 0)
						c.Probe("nested-workflow")
						break
					}
				}
			}
			// a third of the cases run with scipipe's default logging (audit level to
			// stdout + log file) instead of error level: the loggers then really write
			w.FullLogging = c.Tape.Choose(simrt.StGen, 3, 0) == 1
			c.Sample = sample(w)
			// sometimes two commands fail in the same run (possibly at the same time):
			// the failure path runs concurrently in two goroutines
			var fault, fault2 *FaultSpec
			if c.Tape.Choose(simrt.StFault, 6, 0) == 1 {
				var cands []*RTask
				for _, t := range Eval(w).Tasks {
					if len(t.Outs) > 0 {
						cands = append(cands, t)
					}
				}
				if len(cands) >= 2 {
					a := cands[c.Tape.Choose(simrt.StFault, len(cands), 0)]
					b := cands[c.Tape.Choose(simrt.StFault, len(cands), 0)]
					fault = &FaultSpec{Key: a.Key, Mode: simrt.FailMode(1 + c.Tape.Choose(simrt.StFault, 3, 0)), Arg: c.Tape.Choose(simrt.StFault, 6, 0)}
					if b != a {
						fault2 = &FaultSpec{Key: b.Key, Mode: simrt.FailMode(1 + c.Tape.Choose(simrt.StFault, 3, 0)), Arg: c.Tape.Choose(simrt.StFault, 6, 0)}
					}
					c.Fault("command-failures")
					c.Sample = "with failing commands: " + c.Sample
				}
			}
			var root *simrt.Inode
			nextIno := 0
			if fault == nil && c.Tape.Choose(simrt.StGen, 4, 0) == 1 {
				// a re-run on top of existing outputs: several tasks of one process take
				// the "already done" path concurrently
				for i := range w.Nodes {
					w.Nodes[i].TagArgs = nil // (pre-placed files come without audit files, hence without tags)
				}
				root, nextIno = preplace(c, w, Eval(w), false)
				c.Sample = "on top of existing outputs: " + c.Sample
			}
			inc := RunInc(w, c.Tape, root, nextIno, IncOpts{KillAt: -1, Strategy: strategyOf(c.Tape), Trace: c.Trace, Race: true, Fault: fault, Fault2: fault2})
			c.Absorb(inc)
			if v, ok := inconclusiveEnd(inc); ok {
				return v
			}
			reps := inc.Sim.RaceReports()
			if len(reps) == 0 {
				return OK()
			}
			sort.Slice(reps, func(i, j int) bool { return raceSig(reps[i]) < raceSig(reps[j]) })
			topo := "|tagger-input-exclusive"
			if taggerSharesRecord(w) {
				topo = "|tagger-input-shared"
			}
			sigOf := func(r simrt.RaceReport) string {
				s := raceSig(r)
				if strings.Contains(s, "ip.go:map(ai.Tags)") {
					s += topo
				}
				return s
			}
			var first *simrt.RaceReport
			for i := range reps {
				v := Viol("data-race", sigOf(reps[i]), "%s", reps[i].String())
				if c.Known(v) {
					continue
				}
				if first == nil {
					first = &reps[i]
				}
			}
			if first == nil {
				return OK()
			}
			return Viol("data-race", sigOf(*first), "%s", first.String())
		}})
}

// taggerSharesRecord: does some tagging component receive items whose audit
// record is shared with another consumer - the out-port it reads from has a
// second consumer, or the producing process has several out-ports (all
// outputs of a task carry one record)? Only then is the unsynchronised Tags
// map of F-C12-1 reachable from two goroutines on the unchanged tree.
func taggerSharesRecord(w *WF) bool {
	consumers := map[Edge]int{}
	for _, n := range w.Nodes {
		for _, in := range n.Ins {
			for _, e := range in.From {
				consumers[e]++
			}
		}
	}
	for _, n := range w.Nodes {
		if n.Kind != KMapToTags {
			continue
		}
		for _, e := range n.Ins[0].From {
			if consumers[e] >= 2 || len(w.Nodes[e.Node].Outs) >= 2 {
				return true
			}
		}
	}
	return false
}

// lazyIPFanoutWF: a component that sends IPs whose audit record has not been
// loaded yet (FileSplitter parts, Concatenator output), fanned out to several
// consumers, one of them possibly a tagger: the lazy load itself must be
// synchronised.
func lazyIPFanoutWF(c *Case) *WF {
	t := c.Tape
	w := &WF{Name: "wf", Sources: map[string]string{}}
	src := Node{Name: "src0", Kind: KFileSrc}
	nf := 1 + t.Choose(simrt.StGen, 2, 0)
	for i := 0; i < nf; i++ {
		p := fmt.Sprintf("lines%d.txt", i)
		var b strings.Builder
		for l := 0; l < 2+t.Choose(simrt.StGen, 5, 0); l++ {
			fmt.Fprintf(&b, "file %d line %d\n", i, l)
		}
		src.Files = append(src.Files, p)
		w.Sources[p] = b.String()
	}
	s := addNode(w, src)
	var lazy Edge
	if t.Choose(simrt.StGen, 3, 0) == 1 {
		cc := addNode(w, Node{Name: "cat", Kind: KConcat, OutPath: "concat/all.txt",
			Ins: []InSpec{{Name: "in", From: []Edge{{s, "out"}}}}, Outs: []OutSpec{{Name: "out"}}})
		lazy = Edge{cc, "out"}
	} else {
		sp := addNode(w, Node{Name: "split", Kind: KSplitter, SplitLines: 1 + t.Choose(simrt.StGen, 2, 0),
			Ins: []InSpec{{Name: "file", From: []Edge{{s, "out"}}}}, Outs: []OutSpec{{Name: "split_file"}}})
		lazy = Edge{sp, "split_file"}
	}
	k := 2 + t.Choose(simrt.StGen, 2, 0)
	for i := 0; i < k; i++ {
		up := lazy
		if i == 0 && t.Choose(simrt.StGen, 2, 0) == 1 {
			tg := addNode(w, Node{Name: "tag", Kind: KMapToTags, TagKey: "kind",
				Ins: []InSpec{{Name: "in", From: []Edge{lazy}}}, Outs: []OutSpec{{Name: "out"}}})
			up = Edge{tg, "out"}
		}
		oneToOne(w, fmt.Sprintf("use%d", i), up)
	}
	w.MaxTasks = 1 + t.Choose(simrt.StGen, 4, 0)
	w.Bufsize = bufsizeOf(t)
	return w
}

// sameFileTwiceCase: files that already have audit files (an earlier program
// made them) enter a workflow TWICE, through two FileSources: one branch tags
// them in place, the other reads them (a shell command or a Go function). The
// two branches hold different IPs of the same file and must not share memory.
func sameFileTwiceCase(c *Case) Verdict {
	t := c.Tape
	w0 := &WF{Name: "wf", Sources: map[string]string{}, MaxTasks: 2, Bufsize: bufsizeOf(t)}
	mk := oneToOne(w0, "mk", Edge{srcNode(w0, "src0", 1+t.Choose(simrt.StGen, 3, 0), ""), "out"})
	_ = mk
	inc0 := RunInc(w0, c.Tape, nil, 0, IncOpts{KillAt: -1, Strategy: strategyOf(c.Tape), Trace: c.Trace, Race: true})
	c.Absorb(inc0)
	if v, ok := inconclusiveEnd(inc0); ok {
		return v
	}
	if !completedOK(inc0) {
		return Skipped(Viol("no-completion", "", "%s", endDesc(inc0)))
	}
	var files []string
	for _, tk := range Eval(w0).Tasks {
		if tk.Proc == "mk" {
			files = append(files, tk.Outs["o0"])
		}
	}
	w := &WF{Name: "wf2", Sources: map[string]string{}, MaxTasks: 1 + t.Choose(simrt.StGen, 3, 0), Bufsize: bufsizeOf(t)}
	sa := addNode(w, Node{Name: "srca", Kind: KFileSrc, Files: files})
	sb := addNode(w, Node{Name: "srcb", Kind: KFileSrc, Files: files})
	addNode(w, Node{Name: "tagk", Kind: KMapToTags, TagKey: "kind",
		Ins: []InSpec{{Name: "in", From: []Edge{{sa, "out"}}}}, Outs: []OutSpec{{Name: "out"}}})
	u := oneToOne(w, "useb", Edge{sb, "out"})
	if t.Choose(simrt.StGen, 2, 0) == 1 {
		w.Nodes[u].Custom = 1
	}
	c.Sample = "existing files enter a workflow through two FileSources: " + sample(w)
	c.Probe("same-file-through-two-sources")
	inc := RunInc(w, c.Tape, inc0.Sim.FS.Root, inc0.Sim.FS.NextIno, IncOpts{KillAt: -1, Strategy: strategyOf(c.Tape), Trace: c.Trace, Race: true})
	c.Absorb(inc)
	if v, ok := inconclusiveEnd(inc); ok {
		return v
	}
	reps := inc.Sim.RaceReports()
	if len(reps) == 0 {
		return OK()
	}
	sort.Slice(reps, func(i, j int) bool { return raceSig(reps[i]) < raceSig(reps[j]) })
	return Viol("data-race", raceSig(reps[0])+"|two-ips-of-one-file", "%s", reps[0].String())
}

// twoConcatWF: two independent branches source -> (process) -> Concatenator ->
// process in one workflow (optionally one of them grouping by a tag).
func twoConcatWF(c *Case) *WF {
	t := c.Tape
	w := &WF{Name: "wf", Sources: map[string]string{}}
	for b := 0; b < 2; b++ {
		n := 1 + t.Choose(simrt.StGen, 3, 0)
		e := Edge{srcNode(w, fmt.Sprintf("src%d", b), n, ""), "out"}
		if t.Choose(simrt.StGen, 2, 0) == 1 {
			e = Edge{oneToOne(w, fmt.Sprintf("pre%d", b), e), "o0"}
		}
		groupBy := ""
		if t.Choose(simrt.StGen, 3, 0) == 1 {
			groupBy = "grp"
			tg := addNode(w, Node{Name: fmt.Sprintf("tagg%d", b), Kind: KMapToTags, TagKey: "grp", TagGroups: 2, TagSkip: 2,
				Ins: []InSpec{{Name: "in", From: []Edge{e}}}, Outs: []OutSpec{{Name: "out"}}})
			e = Edge{tg, "out"}
		}
		cc := addNode(w, Node{Name: fmt.Sprintf("cat%d", b), Kind: KConcat, OutPath: fmt.Sprintf("concat/all%d.txt", b), GroupBy: groupBy,
			Ins: []InSpec{{Name: "in", From: []Edge{e}}}, Outs: []OutSpec{{Name: "out"}}})
		oneToOne(w, fmt.Sprintf("use%d", b), Edge{cc, "out"})
	}
	w.MaxTasks = 1 + t.Choose(simrt.StGen, 4, 0)
	w.Bufsize = bufsizeOf(t)
	return w
}

// taggerChainWF: source -> (process) -> MapToTags -> MapToTags -> process:
// the second tagger writes the record the first may still be working on.
func taggerChainWF(c *Case) *WF {
	t := c.Tape
	w := &WF{Name: "wf", Sources: map[string]string{}}
	n := 1 + t.Choose(simrt.StGen, 4, 0)
	e := Edge{srcNode(w, "src0", n, ""), "out"}
	if t.Choose(simrt.StGen, 2, 0) == 1 {
		e = Edge{oneToOne(w, "pre", e), "o0"}
	}
	k := 2 + t.Choose(simrt.StGen, 2, 0)
	for i := 0; i < k; i++ {
		ti := addNode(w, Node{Name: fmt.Sprintf("tag%d", i), Kind: KMapToTags, TagKey: fmt.Sprintf("k%d", i),
			Ins: []InSpec{{Name: "in", From: []Edge{e}}}, Outs: []OutSpec{{Name: "out"}}})
		e = Edge{ti, "out"}
	}
	oneToOne(w, "use", e)
	w.MaxTasks = 1 + t.Choose(simrt.StGen, 4, 0)
	w.Bufsize = bufsizeOf(t)
	return w
}
