package harness

import (
	"sort"
	"strings"

	"verif/simrt"
)

// C12: no data races. The worker for this check is built from the race
// instrumentation of the rewriter (map operations, fields through pointers,
// json object graphs); the simulator's vector-clock checker reports pairs of
// accesses that are unordered by the simulated synchronisation alone.

var profC12 = Profile{
	MaxProcs: 5, MaxItems: 3, Bufsizes: []int{0, 1, 2}, MaxSlots: 4,
	Params: true, MultiOut: true, FanIn: true, FanOut: true, NoPort: true, Custom: true,
	Subdirs: true, Cores: true, TwoSources: true, Zip: true, ParamSrc: true, Taggers: true, Joins: true, Sinkless: true,
}

func stripLine(site string) string {
	if i := strings.LastIndex(site, "@"); i >= 0 {
		return site[:i]
	}
	return site
}

// raceSig: the two sites without line numbers, sorted.
func raceSig(r simrt.RaceReport) string {
	a, b := stripLine(r.A), stripLine(r.B)
	if a > b {
		a, b = b, a
	}
	return a + " <-> " + b
}

func init() {
	Register(&Check{ID: "C12", Level: "exploration",
		Rule: "one case = one generated workflow (emphasis on fan-out of one out-port to several consumers incl. tagging components, fan-in with concurrent port closing, multi-core tasks, parameter feeders, RunTo) run under one tape-chosen schedule on the race-instrumented build; the in-simulator happens-before checker (vector clocks, edges only from go / channel send-receive / close / mutex / WaitGroup as in the Go memory model) reports every pair of conflicting accesses to a tracked location (maps, struct fields reached through pointers, object graphs handed to encoding/json) that is unordered in that execution. distinct = event-log hash; non-trivial = >=2 tasks and >=1 non-default choice",
		Run: func(c *Case) Verdict {
			w := Generate(c.Tape, tierProfile(profC12, c.Tier))
			if c.Tape.Choose(simrt.StGen, 5, 0) == 1 {
				pickRunTo(c.Tape, w)
			}
			c.Sample = sample(w)
			inc := RunInc(w, c.Tape, nil, 0, IncOpts{KillAt: -1, Strategy: strategyOf(c.Tape), Trace: c.Trace, Race: true})
			c.Absorb(inc)
			if v, ok := inconclusiveEnd(inc); ok {
				return v
			}
			reps := inc.Sim.RaceReports()
			if len(reps) == 0 {
				return OK()
			}
			sort.Slice(reps, func(i, j int) bool { return raceSig(reps[i]) < raceSig(reps[j]) })
			var first *simrt.RaceReport
			for i := range reps {
				v := Viol("data-race", raceSig(reps[i]), "%s", reps[i].String())
				if c.Known(v) {
					continue
				}
				if first == nil {
					first = &reps[i]
				}
			}
			if first == nil {
				return OK()
			}
			return Viol("data-race", raceSig(*first), "%s", first.String())
		}})
}
