package harness

import (
	"encoding/json"
	"fmt"
	"os"
	"os/exec"
	"path/filepath"
	"regexp"
	"sort"
	"strings"
	"time"

	"verif/simrt"
)

// C20: audit report conversion. The converter is a pure function of an audit
// tree and runs natively (the real `scipipe` CLI built from /repo, the real
// bash, a native twin of `op`). What the simulation contributes is the
// clock- and history-dependent INPUT: audit trees written by simulated runs
// with a coarse clock (concurrently started tasks share a start time),
// source files with the zero time, shared ancestors, records loaded from
// resumed runs.

var profC20 = Profile{
	MaxProcs: 5, MaxItems: 3, Bufsizes: []int{0, 1, 2}, MaxSlots: 5,
	Params: true, MultiOut: true, FanIn: true, FanOut: true, TwoSources: true, Zip: true, ParamSrc: true, Joins: true, EmptyOuts: true, Taggers: true,
}

func exportTree(root *simrt.Inode, dir string, only func(path string) bool) error {
	for _, e := range simrt.List(root) {
		if !strings.HasPrefix(e.Path, "/work/") {
			continue
		}
		rel := strings.TrimPrefix(e.Path, "/work/")
		if only != nil && !only(rel) {
			continue
		}
		dst := filepath.Join(dir, rel)
		switch e.Kind {
		case simrt.KDir:
			if err := os.MkdirAll(dst, 0777); err != nil {
				return err
			}
		case simrt.KFile:
			os.MkdirAll(filepath.Dir(dst), 0777)
			if err := os.WriteFile(dst, e.Data, 0666); err != nil {
				return err
			}
		}
	}
	return nil
}

type flatRec struct {
	ID      string
	Proc    string
	Command string
	Params  map[string]string
	Tags    map[string]string
	Start   time.Time
}

// flatten walks the audit JSON the way a reader would: every record of the
// lineage, identified by its ID.
func flattenAudit(r *AuditRec, into map[string]*flatRec, clash *string) {
	if r == nil {
		return
	}
	f := &flatRec{ID: r.ID, Proc: r.ProcessName, Command: r.Command, Params: r.Params, Tags: r.Tags, Start: r.StartTime}
	if old, ok := into[r.ID]; ok {
		if old.Proc != f.Proc || old.Command != f.Command || !old.Start.Equal(f.Start) {
			*clash = fmt.Sprintf("two different records share the ID %s (%s / %s)", r.ID, old.Proc, f.Proc)
		}
	}
	into[r.ID] = f
	for _, k := range sortedKeys(r.Upstream) {
		flattenAudit(r.Upstream[k], into, clash)
	}
}

var (
	reHTMLTask = regexp.MustCompile(`<strong>(.*?)</strong> / <a name="(.*?)"`)
	reTeXID    = regexp.MustCompile(`(?m)^ID: & (\S+) \\\\$`)
	reBashProc = regexp.MustCompile(`(?m)^proc=\$\(printf '%-32s' "(.*?)"\)$`)
)

func runTool(dir string, timeout time.Duration, name string, args ...string) (string, error) {
	cmd := exec.Command(name, args...)
	cmd.Dir = dir
	done := make(chan struct{})
	var out []byte
	var err error
	go func() {
		out, err = cmd.CombinedOutput()
		close(done)
	}()
	select {
	case <-done:
		return string(out), err
	case <-time.After(timeout):
		if cmd.Process != nil {
			cmd.Process.Kill()
		}
		<-done
		return string(out), fmt.Errorf("timeout")
	}
}

func init() {
	Register(&Check{ID: "C20", Level: "exploration",
		Rule: "one case = one generated workflow whose files live in the working directory, run on the simulator under one tape-chosen schedule with a clock granularity of 1 ns / 1 ms / 15 ms (commands last at least one granule, so dependent tasks keep distinct start times while concurrently started ones share them), optionally as a resumed history (RunTo prefix, then Run; or killed at a tape-chosen crash state, temp directories removed, run again: ancestor records loaded from disk); the resulting tree is exported to a scratch directory and the REAL scipipe CLI built from /repo converts the audit file of a tape-chosen output with audit2html, audit2tex and audit2bash; one case in six instead converts a directly generated audit tree (1..12 records, fan-in <= 3, ancestors shared through several paths, source records with zero times, start times increasing / all equal / all zero / tied / decreasing towards the root; listings only). Oracle: each report lists every record ID of the lineage (read independently from the JSON) exactly once, in non-decreasing StartTime order, tasks with their command, parameters and tags; the generated script, run by the real bash in a directory holding only the source files (with a native twin of the workload command), re-creates the file byte-identically. Round 5: a task is identified by process + exact command (listed once whatever ids its records carry); records without OutFiles (older version) in resumed histories. Round 7: per-cent signs on command lines; two programs within one clock tick always under a coarse clock. distinct = event-log hash; non-trivial = lineage of >=3 records and >=1 non-default choice",
		Run: func(c *Case) Verdict {
			cli, opBin := os.Getenv("VERIF_CLI"), os.Getenv("VERIF_OP")
			if exe, err := os.Executable(); err == nil {
				if cli == "" {
					cli = filepath.Join(filepath.Dir(exe), "scipipe-cli")
				}
				if opBin == "" {
					opBin = filepath.Join(filepath.Dir(exe), "op")
				}
			}
			if _, err := os.Stat(cli); err != nil {
				return Inconclusive("scipipe CLI binary not found")
			}
			if _, err := os.Stat(opBin); err != nil {
				return Inconclusive("native op binary not found")
			}
			if c.Tape.Choose(simrt.StGen, 6, 0) == 1 {
				return directAuditCase(c, cli)
			}
			if c.Tape.Choose(simrt.StGen, 10, 0) == 1 {
				return mergedRunsCase(c, cli)
			}
			w := Generate(c.Tape, tierProfile(profC20, c.Tier))
			for i := range w.Nodes {
				// some commands are pipelines whose first stage exits non-zero: fine for
				// bash -c (status of the last stage counts), so the generated script
				// must treat them the same way
				if w.Nodes[i].Kind == KProc && c.Tape.Choose(simrt.StGen, 4, 0) == 1 {
					w.Nodes[i].Prefix = "false |"
				}
				// in-paths not preceded by white space (--opt=PATH style)
				if w.Nodes[i].Kind == KProc && c.Tape.Choose(simrt.StGen, 4, 0) == 1 {
					w.Nodes[i].GlueIn = true
				}
				// a word with per-cent signs on the command line (printf formats, 50%)
				if n := &w.Nodes[i]; n.Kind == KProc && n.Custom == 0 && n.JoinMod == "" && c.Tape.Choose(simrt.StGen, 4, 0) == 1 {
					n.Note = []string{"100%", "%s_%d", "rate=5%v"}[c.Tape.Choose(simrt.StGen, 3, 0)]
				}
			}
			ex := Eval(w)
			gran := []int64{0, 1e6, 15e6}[c.Tape.Choose(simrt.StGen, 3, 0)]
			if gran > 0 {
				c.Fault("coarse-clock")
			}
			hist := c.Tape.Choose(simrt.StGen, 4, 0)
			resumed := hist == 1
			opts := IncOpts{KillAt: -1, Strategy: strategyOf(c.Tape), Trace: c.Trace, ClockGran: gran, MinDur: gran}
			var final *simrt.Inode
			if hist == 2 {
				// history: the run is killed at a tape-chosen crash state, the temp
				// directories are removed and the workflow is run again: part of the
				// lineage is then loaded from disk
				resumed = true
				o1 := opts
				o1.SnapOne = 1 + uint64(c.Tape.Choose(simrt.StKill, 1<<20, 0))
				inc1 := RunInc(w, c.Tape, nil, 0, o1)
				c.Absorb(inc1)
				if v := flowOracle(inc1, ex); v.Status != "ok" {
					return foreign(v)
				}
				if len(inc1.Snaps) == 0 {
					c.Probe("trivial-case")
					return OK()
				}
				sn := inc1.Snaps[0]
				c.Fault("kill@state")
				opts2 := opts
				opts2.Strategy = strategyOf(c.Tape)
				inc2 := RunInc(w, c.Tape, Cleanup(sn.Root), sn.NextIno, opts2)
				c.Absorb(inc2)
				if v, ok := inconclusiveEnd(inc2); ok {
					return v
				}
				if !completedOK(inc2) {
					return Skipped(Viol("resume-no-completion", "", "re-run after kill + cleanup does not complete: %s", endDesc(inc2)))
				}
				if cl, d := checkFinalFiles(inc2.Sim.FS.Root, ex, false); cl != "" {
					return Skipped(Viol(cl, "", "after kill, cleanup and re-run: %s", d))
				}
				final = inc2.Sim.FS.Root
			} else if resumed {
				var procs []string
				for _, n := range w.Nodes {
					if n.Kind == KProc && len(n.Outs) > 0 {
						procs = append(procs, n.Name)
					}
				}
				w1 := *w
				w1.RunTo = []string{procs[c.Tape.Choose(simrt.StGen, len(procs), 0)]}
				c.Fault("resumed-history")
				// the resumed run may happen in another time zone / after the end of daylight
				// saving time: wall-clock readings go backwards while real time goes on
				opts2 := opts
				if c.Tape.Choose(simrt.StGen, 2, 0) == 1 {
					opts.TZOffset = 7200
					opts.GapNS = 600e9
					opts2.TZOffset = 3600
					c.Fault("time-zone-change")
				} else if c.Tape.Choose(simrt.StGen, 2, 0) == 1 {
					// the second program is started right after the first one ended:
					// within the same wall-clock second
					// (... and, on a system with a coarse clock, within one clock tick:
					// whatever the second program derives from the clock alone repeats)
					opts.GapNS = 1000
					if gran == 0 {
						gran = 15e6
						opts.ClockGran, opts.MinDur = gran, gran
						c.Fault("coarse-clock")
					}
					opts2 = opts
					opts2.GapNS = 0
					c.Fault("runs-within-one-second")
				}
				inc1 := RunInc(&w1, c.Tape, nil, 0, opts)
				c.Absorb(inc1)
				if v := flowOracle(inc1, Eval(&w1)); v.Status != "ok" {
					return foreign(v)
				}
				opts2.Strategy = strategyOf(c.Tape)
				if c.Tape.Choose(simrt.StGen, 3, 0) == 1 {
					// the first part was run by an older version of the library, whose
					// records had no OutFiles field: such records are loaded as they are
					// and end up in the lineage; the converters must cope
					wf9 := WorkFiles(inc1.Sim.FS.Root)
					for _, pth := range sortedKeys(wf9) {
						e := wf9[pth]
						if e.Kind != simrt.KFile || !strings.HasSuffix(pth, ".audit.json") {
							continue
						}
						if m, err := parseAny(e.Data); err == nil {
							b, _ := json.MarshalIndent(dropKey(m, "OutFiles"), "", "    ")
							inc1.Sim.FS.PutFile(pth, b)
						}
					}
					c.Fault("old-format-records")
				}
				inc2 := RunInc(w, c.Tape, inc1.Sim.FS.Root, inc1.Sim.FS.NextIno, opts2)
				c.Absorb(inc2)
				if v, ok := inconclusiveEnd(inc2); ok {
					return v
				}
				if !completedOK(inc2) {
					return Skipped(Viol("resume-no-completion", "", "Run after RunTo does not complete: %s", endDesc(inc2)))
				}
				final = inc2.Sim.FS.Root
			} else {
				inc := RunInc(w, c.Tape, nil, 0, opts)
				c.Absorb(inc)
				if v := flowOracle(inc, ex); v.Status != "ok" {
					return foreign(v)
				}
				final = inc.Sim.FS.Root
			}
			// pick a target output (prefer deep ones: last tasks)
			var targets []string
			for _, t := range ex.Tasks {
				for _, p := range t.Outs {
					targets = append(targets, p)
				}
			}
			if len(targets) == 0 {
				c.Probe("trivial-case")
				return OK()
			}
			sort.Strings(targets)
			k := c.Tape.Choose(simrt.StGen, len(targets), 0)
			target := targets[len(targets)-1-k]
			c.Sample = fmt.Sprintf("convert audit of %s (clock granularity %d ns, resumed=%v): %s", target, gran, resumed, sample(w))
			rec, err := readAudit(final, Abs(target))
			if err != nil {
				return Viol("audit-unreadable", "", "%v", err)
			}
			recs := map[string]*flatRec{}
			clash := ""
			flattenAudit(rec, recs, &clash)
			if clash != "" {
				return Viol("record-id-collision", "id-collision", "%s", clash)
			}
			if len(recs) >= 3 {
				c.Tasks = max(c.Tasks, 2)
			} else {
				c.Tasks = 0
			}
			eq := map[int64]int{}
			for _, r := range recs {
				eq[r.Start.UnixNano()]++
			}
			for _, n := range eq {
				if n > 1 {
					c.Probe("records-share-a-start-time")
					break
				}
			}
			dir, err := os.MkdirTemp("", "verif-c20.")
			if err != nil {
				return Inconclusive("mktemp: %v", err)
			}
			defer os.RemoveAll(dir)
			if err := exportTree(final, dir, nil); err != nil {
				return Inconclusive("export: %v", err)
			}
			v, sb := convertAndCheck(cli, dir, target, recs)
			if v.Status != "ok" {
				return v
			}
			run, err := os.MkdirTemp("", "verif-c20run.")
			if err != nil {
				return Inconclusive("mktemp: %v", err)
			}
			defer os.RemoveAll(run)
			if err := exportTree(InitialTree(c, w), run, nil); err != nil {
				return Inconclusive("export: %v", err)
			}
			os.MkdirAll(filepath.Join(run, ".bin"), 0777)
			os.Symlink(opBin, filepath.Join(run, ".bin", "op"))
			os.WriteFile(filepath.Join(run, "report.sh"), sb, 0777)
			cmd := exec.Command("timeout", "120", "bash", "report.sh")
			cmd.Dir = run
			cmd.Env = []string{"PATH=" + filepath.Join(run, ".bin") + ":/usr/bin:/bin"}
			outb, rerr := cmd.CombinedOutput()
			if ee, ok := rerr.(*exec.ExitError); ok && ee.ExitCode() == 124 {
				return Inconclusive("generated script timed out (machine overloaded)")
			}
			want := ex.Files[Abs(target)]
			got, ferr := os.ReadFile(filepath.Join(run, target))
			if rerr != nil || ferr != nil || string(got) != string(want) {
				return Viol("script-does-not-reproduce", "", "the Bash script generated for %s does not re-create it byte-identically (script error: %v, file error: %v, got %q want %q); script output: %s\nscript:\n%s", target, rerr, ferr, clip(got), clip(want), clip2(outb), clip3(sb))
			}
			return OK()
		}})
}

// dropKey removes a key from a decoded JSON object, recursively.
func dropKey(v any, key string) any {
	m, ok := v.(map[string]any)
	if !ok {
		return v
	}
	out := map[string]any{}
	for k, x := range m {
		if k == key {
			continue
		}
		out[k] = dropKey(x, key)
	}
	return out
}

// InitialTree: the working directory holding only the source files.
func InitialTree(c *Case, w *WF) *simrt.Inode {
	_, root := freshFS(c, w)
	return root
}

var _ = json.Marshal

func clip3(b []byte) string {
	if len(b) > 4000 {
		return string(b[:4000]) + "..."
	}
	return string(b)
}

// convertAndCheck runs the three converters of the real CLI on
// <dir>/<target>.audit.json and checks the listings against the records of
// the lineage (read independently from the JSON). Returns the generated Bash
// script.
func convertAndCheck(cli, dir, target string, recs map[string]*flatRec) (Verdict, []byte) {
	// earlier, longer reports already sit at the output paths: the new reports
	// must replace them, not be written over their beginning
	var st strings.Builder
	for i := 0; i < 3000; i++ {
		fmt.Fprintf(&st, "<tr><td><strong>stale%d</strong> / <a name=\"staleid%012d\"\nID: & staleid%012d \\\\\nproc=$(printf '%%-32s' \"staleproc%d\")\n", i, i, i, i)
	}
	for _, f := range []string{"report.html", "report.tex", "report.sh"} {
		os.WriteFile(filepath.Join(dir, f), []byte(st.String()), 0666)
	}
	eq := map[int64]int{}
	for _, r := range recs {
		eq[r.Start.UnixNano()]++
	}
	checkListing := func(kind string, ids []string, text string) Verdict {
		seen := map[string]int{}
		for _, id := range ids {
			seen[id]++
		}
		sig := ""
		if len(eq) < len(recs) {
			sig = "equal-start-times"
		}
		for _, id := range sortedKeys(recs) {
			r := recs[id]
			if seen[id] == 0 {
				return Viol("report-listing", sig, "audit2%s of %s: record %s (process %q, start %s) of the lineage is not listed; listed ids: %v", kind, target, id, r.Proc, r.Start.Format(time.RFC3339Nano), ids)
			}
			if seen[id] > 1 {
				return Viol("report-listing", sig, "audit2%s of %s: record %s (process %q) is listed %d times", kind, target, id, r.Proc, seen[id])
			}
		}
		for _, id := range ids {
			if recs[id] == nil {
				return Viol("report-unknown-record", "", "audit2%s of %s lists an id %s that is not in the lineage", kind, target, id)
			}
		}
		// "every task exactly once": a task is identified by what it did (process and
		// exact command; commands name the task's unique output paths), not by the id
		// its record happens to carry - one task that is listed under two ids (the
		// records of its several outputs) is listed twice
		byTask := map[string][]string{}
		for _, id := range ids {
			if r := recs[id]; r.Command != "" {
				k := r.Proc + "\x00" + r.Command
				byTask[k] = append(byTask[k], id)
			}
		}
		for _, k := range sortedKeys(byTask) {
			if l := byTask[k]; len(l) > 1 {
				return Viol("report-listing", "", "audit2%s of %s: the task of process %q with command %q is listed %d times (under the record ids %v)", kind, target, recs[l[0]].Proc, recs[l[0]].Command, len(l), l)
			}
		}
		for i := 1; i < len(ids); i++ {
			if recs[ids[i]].Start.Before(recs[ids[i-1]].Start) {
				return Viol("report-order", "", "audit2%s of %s: %s (start %s) listed after %s (start %s)", kind, target, ids[i], recs[ids[i]].Start, ids[i-1], recs[ids[i-1]].Start)
			}
		}
		for _, id := range sortedKeys(recs) {
			r := recs[id]
			cmd := r.Command
			if kind == "tex" {
				cmd = strings.ReplaceAll(cmd, "_", "\\_")
			}
			if r.Command != "" && !strings.Contains(text, cmd) {
				return Viol("report-command", "", "audit2%s of %s: command %q of record %s not rendered", kind, target, r.Command, id)
			}
			for pk, pv := range r.Params {
				p1, p2 := pk+": "+pv, pk+"="+pv
				if !strings.Contains(text, p1) && !strings.Contains(text, p2) {
					return Viol("report-params", "", "audit2%s of %s: parameter %s=%s of record %s not rendered", kind, target, pk, pv, id)
				}
			}
			for tk, tv := range r.Tags {
				p1, p2 := tk+": "+tv, tk+"="+tv
				if !strings.Contains(text, p1) && !strings.Contains(text, p2) {
					return Viol("report-tags", "", "audit2%s of %s: tag %s=%s of record %s not rendered", kind, target, tk, tv, id)
				}
			}
		}
		return OK()
	}
	// HTML
	if out, err := runTool(dir, 60*time.Second, cli, "audit2html", target+".audit.json", "report.html"); err != nil {
		if err.Error() == "timeout" {
			return Inconclusive("native converter timed out (machine overloaded)"), nil
		}
		return Viol("converter-failed", "", "scipipe audit2html %s.audit.json failed: %v: %s", target, err, clip([]byte(out))), nil
	}
	hb, _ := os.ReadFile(filepath.Join(dir, "report.html"))
	var ids []string
	for _, m := range reHTMLTask.FindAllStringSubmatch(string(hb), -1) {
		ids = append(ids, m[2])
	}
	if v := checkListing("html", ids, string(hb)); v.Status != "ok" {
		return v, nil
	}
	// TeX
	if out, err := runTool(dir, 60*time.Second, cli, "audit2tex", target+".audit.json", "report.tex"); err != nil {
		if err.Error() == "timeout" {
			return Inconclusive("native converter timed out (machine overloaded)"), nil
		}
		return Viol("converter-failed", "", "scipipe audit2tex %s.audit.json failed: %v: %s", target, err, clip([]byte(out))), nil
	}
	tb, _ := os.ReadFile(filepath.Join(dir, "report.tex"))
	ids = nil
	for _, m := range reTeXID.FindAllStringSubmatch(string(tb), -1) {
		ids = append(ids, m[1])
	}
	if v := checkListing("tex", ids, string(tb)); v.Status != "ok" {
		return v, nil
	}
	// Bash: listing by process name (ids are not rendered), then execute
	if out, err := runTool(dir, 60*time.Second, cli, "audit2bash", target+".audit.json", "report.sh"); err != nil {
		if err.Error() == "timeout" {
			return Inconclusive("native converter timed out (machine overloaded)"), nil
		}
		return Viol("converter-failed", "", "scipipe audit2bash %s.audit.json failed: %v: %s", target, err, clip([]byte(out))), nil
	}
	sb, _ := os.ReadFile(filepath.Join(dir, "report.sh"))
	var gotProcs, wantProcs []string
	for _, m := range reBashProc.FindAllStringSubmatch(string(sb), -1) {
		gotProcs = append(gotProcs, m[1])
	}
	for _, r := range recs {
		wantProcs = append(wantProcs, r.Proc)
	}
	taskSeen := map[string]bool{}
	for _, r := range recs {
		if r.Command == "" {
			continue
		}
		if k := r.Proc + "\x00" + r.Command; taskSeen[k] {
			return Viol("report-listing", "", "audit2bash of %s: the task of process %q with command %q is in the script more than once (its records carry different ids)", target, r.Proc, r.Command), nil
		} else {
			taskSeen[k] = true
		}
	}
	if m, x := multisetDiff(gotProcs, wantProcs); len(m)+len(x) > 0 {
		sig := ""
		if len(eq) < len(recs) {
			sig = "equal-start-times"
		}
		return Viol("report-listing", sig, "audit2bash of %s: script lists processes %v, the lineage has %v", target, gotProcs, wantProcs), nil
	}
	return OK(), sb
}

// directAuditCase: an audit tree generated directly (the property's "or
// generated directly"): depth, fan-in, ancestors shared through several
// paths, source records (no process, zero times), start times that are all
// equal / all zero / tied in groups / distinct but not in tree order. Only the
// listings are checked (there are no files a script could re-create).
func directAuditCase(c *Case, cli string) Verdict {
	t := c.Tape
	n := 1 + t.Choose(simrt.StGen, 12, 0)
	mode := t.Choose(simrt.StGen, 5, 0) // 0 increasing, 1 all equal, 2 all zero, 3 ties, 4 decreasing towards the root
	base := time.Date(2026, 3, 1, 12, 0, 0, 0, time.UTC)
	recs := make([]*AuditRec, n)
	for i := 0; i < n; i++ {
		r := &AuditRec{ID: fmt.Sprintf("%020s", fmt.Sprintf("rec%dx%d", i, n)), Params: map[string]string{}, Tags: map[string]string{},
			OutFiles: map[string]string{}, Upstream: map[string]*AuditRec{}, ExecTimeNS: -1}
		r.ID = strings.ReplaceAll(r.ID, " ", "q")
		nup := 0
		if i > 0 {
			nup = t.Choose(simrt.StGen, min(4, i+1), 0)
		}
		if nup == 0 && t.Choose(simrt.StGen, 2, 0) == 0 {
			// a source file: no producing task, zero times
		} else {
			r.ProcessName = fmt.Sprintf("proc%d", t.Choose(simrt.StGen, n, 0))
			r.Command = fmt.Sprintf("op %s -i ../f%d.txt -o f%d.txt", r.ProcessName, i, i)
			var st time.Time
			switch mode {
			case 0:
				st = base.Add(time.Duration(i) * time.Second)
			case 1:
				st = base
			case 2:
			case 3:
				st = base.Add(time.Duration(t.Choose(simrt.StGen, 3, 0)) * time.Millisecond)
			case 4:
				st = base.Add(time.Duration(n-i) * time.Second)
			}
			r.StartTime = st
			if !st.IsZero() {
				r.FinishTime = st.Add(5 * time.Millisecond)
				r.ExecTimeNS = 5e6
			}
			if t.Choose(simrt.StGen, 3, 0) == 1 {
				r.Params[fmt.Sprintf("par%d", i)] = fmt.Sprintf("val%d", i)
			}
			if t.Choose(simrt.StGen, 3, 0) == 1 {
				r.Tags[fmt.Sprintf("tag%d", i)] = fmt.Sprintf("tv%d", i)
			}
		}
		r.OutFiles["out"] = fmt.Sprintf("f%d.txt", i)
		for k := 0; k < nup; k++ {
			j := t.Choose(simrt.StGen, i, 0)
			r.Upstream[fmt.Sprintf("f%d.txt", j)] = recs[j] // (the same record may be reached through several paths)
		}
		recs[i] = r
	}
	root := recs[n-1]
	if root.ProcessName == "" {
		root.ProcessName, root.Command = "rootproc", "op rootproc -o f.txt"
	}
	js, err := json.MarshalIndent(root, "", "    ")
	if err != nil {
		return Inconclusive("marshal: %v", err)
	}
	for _, b := range js {
		c.Hash = (c.Hash ^ uint64(b)) * 1099511628211
	}
	flat := map[string]*flatRec{}
	clash := ""
	flattenAudit(root, flat, &clash)
	if clash != "" {
		panic("harness: generated audit tree has clashing ids: " + clash)
	}
	if len(flat) >= 3 {
		c.Tasks = 2
	}
	c.Fault("generated-audit-tree")
	c.Sample = fmt.Sprintf("directly generated audit tree: %d records reachable, start-time mode %d", len(flat), mode)
	dir, err := os.MkdirTemp("", "verif-c20d.")
	if err != nil {
		return Inconclusive("mktemp: %v", err)
	}
	defer os.RemoveAll(dir)
	if err := os.WriteFile(filepath.Join(dir, "direct.out.audit.json"), js, 0666); err != nil {
		return Inconclusive("write: %v", err)
	}
	v, _ := convertAndCheck(cli, dir, "direct.out", flat)
	return v
}

// mergedRunsCase: two structurally identical workflows are run as separate
// programs one right after the other (per-sample runs started in a loop:
// possibly within one wall-clock second), a third program merges their
// results. The merged file's lineage holds the records of both earlier runs,
// loaded from disk: every one of them must be listed exactly once.
func mergedRunsCase(c *Case, cli string) Verdict {
	t := c.Tape
	depth := 1 + t.Choose(simrt.StGen, 3, 0)
	gran := []int64{0, 1e6}[t.Choose(simrt.StGen, 2, 0)]
	chain := func(tag string) (*WF, string) {
		w := &WF{Name: "wf" + tag, Sources: map[string]string{}, MaxTasks: 2, Bufsize: 0}
		e := Edge{srcNode(w, "src"+tag, 1, ""), "out"}
		last := ""
		for i := 0; i < depth; i++ {
			name := fmt.Sprintf("p%s%d", tag, i)
			ni := oneToOne(w, name, e)
			e = Edge{ni, "o0"}
			last = name
		}
		ex := Eval(w)
		out := ""
		for _, tk := range ex.Tasks {
			if tk.Proc == last {
				out = tk.Outs["o0"]
			}
		}
		return w, out
	}
	wA, outA := chain("a")
	wB, outB := chain("b")
	opts := IncOpts{KillAt: -1, Strategy: strategyOf(t), Trace: c.Trace, ClockGran: gran, MinDur: gran, GapNS: 1000}
	c.Fault("runs-within-one-second")
	incA := RunInc(wA, t, nil, 0, opts)
	c.Absorb(incA)
	if v := flowOracle(incA, Eval(wA)); v.Status != "ok" {
		return foreign(v)
	}
	// the second program runs in the same directory (its own source file is put there first)
	root := incA.Sim.FS.Snapshot()
	sB, _ := freshFS(c, wB)
	for p := range wB.Sources {
		if n := simrt.Find(sB.FS.Root, Abs(p)); n != nil {
			simrt.Find(root, "/work").Ents[baseName(p)] = n
		}
	}
	opts.Strategy = strategyOf(t)
	incB := RunInc(wB, t, root, incA.Sim.FS.NextIno+100, opts)
	c.Absorb(incB)
	if v, ok := inconclusiveEnd(incB); ok {
		return v
	}
	if !completedOK(incB) {
		return Skipped(Viol("no-completion", "", "second program: %s", endDesc(incB)))
	}
	wM := &WF{Name: "wfm", Sources: map[string]string{}, MaxTasks: 2}
	sa := addNode(wM, Node{Name: "ina", Kind: KFileSrc, Files: []string{outA}})
	sb := addNode(wM, Node{Name: "inb", Kind: KFileSrc, Files: []string{outB}})
	zipConsumer(wM, "merge", []Edge{{sa, "out"}, {sb, "out"}}, []string{"a", "b"})
	opts.Strategy = strategyOf(t)
	opts.GapNS = 0
	incM := RunInc(wM, t, incB.Sim.FS.Root, incB.Sim.FS.NextIno, opts)
	c.Absorb(incM)
	if v, ok := inconclusiveEnd(incM); ok {
		return v
	}
	if !completedOK(incM) {
		return Skipped(Viol("no-completion", "", "merging program: %s", endDesc(incM)))
	}
	target := baseName(outA) + "." + baseName(outB) + ".merge.o0"
	c.Sample = fmt.Sprintf("two programs of depth %d run back to back, a third merges %s and %s (clock granularity %d ns)", depth, outA, outB, gran)
	final := incM.Sim.FS.Root
	rec, err := readAudit(final, Abs(target))
	if err != nil {
		return Viol("audit-unreadable", "", "%v", err)
	}
	recs := map[string]*flatRec{}
	clash := ""
	flattenAudit(rec, recs, &clash)
	if clash != "" {
		return Viol("record-id-collision", "id-collision", "%s", clash)
	}
	c.Tasks = max(c.Tasks, 2)
	dir, err := os.MkdirTemp("", "verif-c20m.")
	if err != nil {
		return Inconclusive("mktemp: %v", err)
	}
	defer os.RemoveAll(dir)
	if err := exportTree(final, dir, nil); err != nil {
		return Inconclusive("export: %v", err)
	}
	v, _ := convertAndCheck(cli, dir, target, recs)
	return v
}
