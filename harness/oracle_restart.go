package harness

import (
	"fmt"
	"sort"
	"strings"

	"verif/simrt"
)

// C01 (atomic outputs), C02 (existing outputs untouched), C03 (restart after
// crash converges): histories of incarnations over one persistent fs, with
// every distinct crash state along the sampled schedule enumerated.

// freshFS builds the initial tree of a workflow outside any incarnation.
func freshFS(c *Case, w *WF) (*simrt.Sim, *simrt.Inode) {
	s := simrt.NewSim(c.Tape, simrt.Config{KillAt: -1})
	InitFS(s, w)
	return s, s.FS.Root
}

// preplace puts a tape-chosen subset of output files on disk before the run.
// arbitrary=false: whole tasks, reference bytes (the result stays the
// reference result); arbitrary=true: any subset of files, arbitrary bytes,
// with or without an audit file.
func preplace(c *Case, w *WF, ex *Expect, arbitrary bool) (*simrt.Inode, int) {
	root, nextIno, _ := preplaceMap(c, w, ex, arbitrary)
	return root, nextIno
}

func preplaceMap(c *Case, w *WF, ex *Expect, arbitrary bool) (*simrt.Inode, int, map[string][]byte) {
	s, _ := freshFS(c, w)
	pre := map[string][]byte{}
	for _, t := range ex.Tasks {
		if len(t.Outs) == 0 {
			continue
		}
		if c.Tape.Choose(simrt.StGen, 3, 0) != 1 {
			continue
		}
		var ports []string
		for p := range t.Outs {
			ports = append(ports, p)
		}
		sort.Strings(ports)
		for _, p := range ports {
			if ex.StreamPaths[Abs(t.Outs[p])] {
				continue
			}
			if arbitrary && len(ports) > 1 && c.Tape.Choose(simrt.StGen, 3, 0) == 1 {
				c.Probe("pre-existing-splits-multi-output-task")
				continue // split a multi-output task
			}
			data := t.Content[p]
			if arbitrary {
				switch c.Tape.Choose(simrt.StGen, 3, 0) {
				case 1:
					data = []byte(fmt.Sprintf("user-supplied %s\n", t.Outs[p]))
				case 2:
					data = nil
				}
			}
			ap := Abs(t.Outs[p])
			s.FS.PutFile(ap, data)
			pre[ap] = data
			if arbitrary && c.Tape.Choose(simrt.StGen, 2, 0) == 1 {
				s.FS.PutFile(ap+".audit.json", []byte(fmt.Sprintf(`{"ID":"preexisting","ProcessName":"%s","Command":"user","Params":{},"Tags":{},"StartTime":"2020-01-01T00:00:00Z","FinishTime":"2020-01-01T00:00:01Z","ExecTimeNS":1000000000,"OutFiles":{},"Upstream":{}}`, t.Proc)))
			}
			c.Fault("pre-existing")
		}
	}
	return s.FS.Root, s.FS.NextIno, pre
}

type fileID struct {
	ino   int
	mtime int64
	data  string
}

func idOf(root *simrt.Inode, abs string) (fileID, bool) {
	n := simrt.Find(root, abs)
	if n == nil || n.Kind != simrt.KFile {
		return fileID{}, false
	}
	return fileID{n.Ino, n.Mtime, string(n.Data)}, true
}

// --- C02 ---------------------------------------------------------------------------------

var profC02 = Profile{
	MaxProcs: 5, MaxItems: 3, Bufsizes: []int{0, 1, 2}, MaxSlots: 4,
	Params: true, MultiOut: true, FanIn: true, FanOut: true, NoPort: true, Custom: true,
	Subdirs: true, ParentAbs: true, NoOtherDevice: true, Cores: true, TwoSources: true, Zip: true, ParamSrc: true, EmptyOuts: true, Joins: true,
}

func init() {
	Register(&Check{ID: "C02", Level: "exploration",
		Rule: "one case = one generated workflow (no streaming) with a tape-chosen subset of its output files placed on disk before the run (arbitrary bytes incl. empty, with or without audit file, possibly splitting a multi-output task), run under one schedule; or the history 'complete run, run again in place'. Oracle: no start event for any task one of whose outputs pre-existed; (inode, mtime, size, bytes) of every pre-existing file unchanged; when no task is split: exit 0 and every downstream output equals the reference evaluated WITH the pre-existing bytes; second run: empty trace, nothing changed. Round 5: windows in which descriptor-opening calls fail with EMFILE (safety clauses only); a process whose output path equals its input path. Round 6: twin instances of a finished workflow re-run concurrently; long default output names; out-ports made by SetOut only. distinct = event-log hash; non-trivial = >=1 pre-existing file or a second run, >=1 task executed or skipped, >=1 non-default choice",
		Run: func(c *Case) Verdict {
			switch c.Tape.Choose(simrt.StGen, 12, 0) {
			case 1:
				return inPlaceCase(c)
			case 2:
				return rerunShapesCase(c)
			}
			w := Generate(c.Tape, tierProfile(profC02, c.Tier))
			ex0 := Eval(w)
			if c.Tape.Choose(simrt.StGen, 4, 0) == 1 {
				// history: complete run, then run again
				defaultPaths := c.Tape.Choose(simrt.StGen, 3, 0) == 1
				// (default names are built from base names: two sources that share base
				// names would make two tasks claim one output path - not a well-formed workflow)
				seenBase := map[string]bool{}
				for p := range w.Sources {
					if seenBase[baseName(p)] {
						defaultPaths = false
					}
					seenBase[baseName(p)] = true
				}
				for _, n := range w.Nodes {
					if n.Kind == KStreamToSub {
						// (the default name of a joining task's output derives from the random
						// temp path of the sub-stream carrier: nobody can use default names there)
						defaultPaths = false
					}
				}
				if defaultPaths {
					// scipipe's default output names (no SetOut): the second run must
					// find the same names again. The reference does not predict them, so
					// only the re-run clauses are evaluated.
					for i := range w.Nodes {
						for k := range w.Nodes[i].Outs {
							w.Nodes[i].Outs[k].Pattern = ""
						}
					}
				}
				c.Sample = "run twice: " + sample(w)
				inc1 := RunInc(w, c.Tape, nil, 0, IncOpts{KillAt: -1, Strategy: strategyOf(c.Tape), Trace: c.Trace})
				c.Absorb(inc1)
				if defaultPaths {
					if v, ok := inconclusiveEnd(inc1); ok {
						return v
					}
					if !completedOK(inc1) {
						return Skipped(Viol("no-completion", "", "%s", endDesc(inc1)))
					}
					before := inc1.Sim.FS.Snapshot()
					inc2 := RunInc(w, c.Tape, before, inc1.Sim.FS.NextIno, IncOpts{KillAt: -1, Strategy: strategyOf(c.Tape), Trace: c.Trace})
					c.Absorb(inc2)
					c.Tasks = max(c.Tasks, 2)
					if v, ok := inconclusiveEnd(inc2); ok {
						return v
					}
					if !completedOK(inc2) {
						return Viol("rerun-no-completion", "end="+inc2.Sim.End.String(), "second run of a completed workflow did not complete: %s", endDesc(inc2))
					}
					if st := execKeys(inc2.Sim.Shell.Trace, "start", 0); len(st) > 0 {
						return Viol("rerun-executed", "", "second run of a completed workflow (default output names) executed command(s): %v", st)
					}
					bf, af := WorkFiles(before), WorkFiles(inc2.Sim.FS.Root)
					for p, a := range bf {
						if a.Kind != simrt.KFile || strings.HasSuffix(p, ".audit.json") {
							continue
						}
						b, ok := af[p]
						if !ok || b.Ino != a.Ino || b.Mtime != a.Mtime || string(b.Data) != string(a.Data) {
							return Viol("rerun-modified", "", "second run changed %s", p)
						}
					}
					return OK()
				}
				if v := flowOracle(inc1, ex0); v.Status != "ok" {
					return v
				}
				before := inc1.Sim.FS.Snapshot()
				inc2 := RunInc(w, c.Tape, before, inc1.Sim.FS.NextIno, IncOpts{KillAt: -1, Strategy: strategyOf(c.Tape), Trace: c.Trace})
				c.Absorb(inc2)
				c.Tasks = max(c.Tasks, 2)
				if v, ok := inconclusiveEnd(inc2); ok {
					return v
				}
				if !completedOK(inc2) {
					return Viol("rerun-no-completion", "end="+inc2.Sim.End.String(), "second run of a completed workflow did not complete: %s", endDesc(inc2))
				}
				if st := execKeys(inc2.Sim.Shell.Trace, "start", 0); len(st) > 0 {
					return Viol("rerun-executed", "", "second run of a completed workflow executed command(s): %v", st)
				}
				for p := range ex0.Files {
					a, _ := idOf(before, p)
					b, ok := idOf(inc2.Sim.FS.Root, p)
					if !ok || a != b {
						return Viol("rerun-modified", "", "second run changed output %s: (ino,mtime,bytes) %v -> %v", p, short(a), short(b))
					}
				}
				return OK()
			}
			if c.Tape.Choose(simrt.StGen, 5, 0) == 1 {
				// outputs left by an INTERRUPTED run: kill at a tape-chosen crash state,
				// re-run on exactly that state (leftover temp dirs and all). Whatever else
				// the re-run does (C03), it must not re-execute a task one of whose
				// outputs is final, nor touch those files.
				c.Sample = "interrupted run, re-run in place: " + sample(w)
				inc1 := RunInc(w, c.Tape, nil, 0, IncOpts{KillAt: -1, Strategy: strategyOf(c.Tape), Trace: c.Trace, SnapOne: 1 + uint64(c.Tape.Choose(simrt.StKill, 1<<20, 0))})
				c.Absorb(inc1)
				if v := flowOracle(inc1, ex0); v.Status != "ok" {
					return foreign(v)
				}
				if len(inc1.Snaps) == 0 {
					return OK()
				}
				sn := inc1.Snaps[0]
				c.Fault("kill@state")
				before := finalBefore(sn.Root, ex0)
				inc2 := RunInc(w, c.Tape, sn.Root, sn.NextIno, IncOpts{KillAt: -1, Strategy: strategyOf(c.Tape), Trace: c.Trace})
				c.Absorb(inc2)
				c.Tasks = max(c.Tasks, 2)
				if v, ok := inconclusiveEnd(inc2); ok {
					return v
				}
				what := fmt.Sprintf("first run killed after fs operation #%d (%s %s), re-run in place", sn.JSeq, sn.Entry.Op, strings.TrimPrefix(sn.Entry.Path, "/work/"))
				for _, e := range inc2.Sim.Shell.Trace {
					if e.Kind != "start" {
						continue
					}
					for _, t := range ex0.ByKey[e.Key] {
						for _, p := range t.Outs {
							if _, ok := before[Abs(p)]; ok {
								return Viol("existing-output-reexecuted", "", "%s: task %s was executed although its output %s already existed", what, e.Key, p)
							}
						}
					}
				}
				for p, a := range before {
					b, ok := idOf(inc2.Sim.FS.Root, p)
					if !ok || a != b {
						return Viol("existing-output-modified", "", "%s: existing output %s changed: (ino,mtime,bytes) %v -> %v", what, p, short(a), short(b))
					}
				}
				return OK()
			}
			root, nextIno, pre := preplaceMap(c, w, ex0, true)
			ex := EvalWith(w, pre)
			c.Sample = fmt.Sprintf("pre-existing %v: %s", keysOf(pre), sample(w))
			split := false
			for _, t := range ex.Tasks {
				if t.Undefined {
					split = true
				}
				if t.Skipped {
					for _, p := range t.Outs {
						if _, ok := pre[Abs(p)]; !ok && !ex.StreamPaths[Abs(p)] {
							split = true
						}
					}
				}
			}
			o := IncOpts{KillAt: -1, Strategy: strategyOf(c.Tape), Trace: c.Trace}
			if len(pre) > 0 && c.Tape.Choose(simrt.StFault, 6, 0) == 1 {
				// the process runs out of file descriptors for a while (EMFILE on calls
				// that open something; stat needs none). Stopping with an error is fine;
				// what exists must still neither be re-made nor touched
				o.NoFDFrom = 1 + c.Tape.Choose(simrt.StFault, 60, 0)
				o.NoFDLen = 1 + c.Tape.Choose(simrt.StFault, 8, 0)
				split = true // (safety clauses only)
				c.Sample = fmt.Sprintf("no file descriptors for the open calls #%d..#%d; %s", o.NoFDFrom, o.NoFDFrom+o.NoFDLen-1, c.Sample)
			}
			inc := RunInc(w, c.Tape, root, nextIno, o)
			c.Absorb(inc)
			if len(pre) > 0 {
				c.Tasks = max(c.Tasks, 2)
			}
			if v, ok := inconclusiveEnd(inc); ok {
				return v
			}
			s := inc.Sim
			// safety clause 1: skipped tasks are not executed
			skipped := map[string]bool{}
			for _, t := range ex.Tasks {
				if t.Skipped {
					skipped[t.Key] = true
				}
			}
			for _, e := range s.Shell.Trace {
				if e.Kind == "start" && skipped[e.Key] {
					return Viol("existing-output-reexecuted", "", "task %s was executed although one of its outputs already existed", e.Key)
				}
			}
			// safety clause 2: pre-existing files are not touched
			for p := range pre {
				a, _ := idOf(root, p)
				b, ok := idOf(s.FS.Root, p)
				if !ok || a != b {
					return Viol("existing-output-modified", "", "pre-existing file %s changed: (ino,mtime,bytes) %v -> %v", p, short(a), short(b))
				}
			}
			if split {
				c.Probe("split-case-safety-only")
				return OK()
			}
			return flowOracle(inc, ex)
		}})
}

// rerunShapesCase: complete run, then run again, for three shapes the generated
// graphs lack: (a) two instances of the finished workflow re-run concurrently in
// one program; (b) scipipe's default output names when they get long (source
// names of ~190 characters); (c) out-ports that exist through SetOut only (the
// command names its files itself). The second run executes no command and
// changes no output file.
func rerunShapesCase(c *Case) Verdict {
	t := c.Tape
	w := &WF{Name: "wf", Sources: map[string]string{}, MaxTasks: 1 + t.Choose(simrt.StGen, 4, 0), Bufsize: bufsizeOf(t)}
	shape := t.Choose(simrt.StGen, 3, 0)
	n := 1 + t.Choose(simrt.StGen, 3, 0)
	src := Node{Name: "src0", Kind: KFileSrc}
	for i := 0; i < n; i++ {
		p := fmt.Sprintf("src0_%d.txt", i)
		if shape == 1 {
			p = fmt.Sprintf("sample_%d_%s.txt", i, strings.Repeat("n", 170+t.Choose(simrt.StGen, 12, 0)))
		}
		src.Files = append(src.Files, p)
		w.Sources[p] = fmt.Sprintf("source %d\n", i)
	}
	e := Edge{addNode(w, src), "out"}
	a := oneToOne(w, "pa", e)
	b := oneToOne(w, "pb", Edge{a, "o0"})
	what := ""
	switch shape {
	case 0:
		what = "two instances re-run concurrently"
	case 1:
		what = "long default output names"
		w.Nodes[a].Outs[0].Pattern = ""
		w.Nodes[b].Outs[0].Pattern = ""
	default:
		what = "out-ports made by SetOut only"
		w.Nodes[a].OutNotInCmd = true
		w.Nodes[a].Outs[0].Pattern = "{i:a|basename}.pa.o0"
		if t.Choose(simrt.StGen, 2, 0) == 1 {
			w.Nodes[b].OutNotInCmd = true
			w.Nodes[b].Outs[0].Pattern = "{i:a|basename}.pb.o0"
		}
	}
	c.Sample = "run twice, " + what + ": " + sample(w)
	if len(c.Sample) > 1500 {
		c.Sample = c.Sample[:1500] + "..."
	}
	c.Probe("rerun-shape-" + strings.Fields(what)[0])
	inc1 := RunInc(w, c.Tape, nil, 0, IncOpts{KillAt: -1, Strategy: strategyOf(c.Tape), Trace: c.Trace})
	c.Absorb(inc1)
	if v, ok := inconclusiveEnd(inc1); ok {
		return v
	}
	if !completedOK(inc1) || len(execKeys(inc1.Sim.Shell.Trace, "exit", 0)) != 2*n {
		return Skipped(Viol("no-completion", "", "first run: %s", endDesc(inc1)))
	}
	before := inc1.Sim.FS.Snapshot()
	w2 := *w
	w2.Twin = shape == 0
	inc2 := RunInc(&w2, c.Tape, before, inc1.Sim.FS.NextIno, IncOpts{KillAt: -1, Strategy: strategyOf(c.Tape), Trace: c.Trace})
	c.Absorb(inc2)
	c.Tasks = max(c.Tasks, 2)
	if v, ok := inconclusiveEnd(inc2); ok {
		return v
	}
	if st := execKeys(inc2.Sim.Shell.Trace, "start", 0); len(st) > 0 {
		return Viol("rerun-executed", what, "second run of a completed workflow (%s) executed command(s): %v", what, st)
	}
	if !completedOK(inc2) {
		return Viol("rerun-no-completion", what, "second run of a completed workflow (%s) did not complete: %s", what, endDesc(inc2))
	}
	bf, af := WorkFiles(before), WorkFiles(inc2.Sim.FS.Root)
	for p, x := range bf {
		if x.Kind != simrt.KFile || strings.HasSuffix(p, ".audit.json") {
			continue
		}
		y, ok := af[p]
		if !ok || y.Ino != x.Ino || y.Mtime != x.Mtime || string(y.Data) != string(x.Data) {
			return Viol("rerun-modified", what, "second run (%s) changed %s", what, p)
		}
	}
	for p, y := range af {
		if _, ok := bf[p]; !ok && y.Kind == simrt.KFile && !strings.HasSuffix(p, ".audit.json") {
			return Viol("rerun-modified", what, "second run (%s) produced a new file %s", what, p)
		}
	}
	return OK()
}

// inPlaceCase: a process whose declared output path IS its input path
// (SetOut("o0", "{i:a}")): the output exists whenever a task of it is scheduled,
// so its command is never executed, the file keeps bytes, inode and
// modification time, and downstream processes still receive it.
func inPlaceCase(c *Case) Verdict {
	t := c.Tape
	w := &WF{Name: "wf", Sources: map[string]string{}, MaxTasks: 1 + t.Choose(simrt.StGen, 3, 0), Bufsize: bufsizeOf(t)}
	ref := &WF{Name: "wf", Sources: map[string]string{}, MaxTasks: w.MaxTasks, Bufsize: w.Bufsize}
	n := 1 + t.Choose(simrt.StGen, 3, 0)
	pre := t.Choose(simrt.StGen, 2, 0) == 1
	var es []Edge
	for _, x := range []*WF{w, ref} {
		e := Edge{srcNode(x, "src0", n, ""), "out"}
		if pre {
			e = Edge{oneToOne(x, "pre", e), "o0"}
		}
		es = append(es, e)
	}
	ni := addNode(w, Node{Name: "norm", Kind: KProc, Cores: 1,
		Ins:  []InSpec{{Name: "a", From: []Edge{es[0]}}},
		Outs: []OutSpec{{Name: "o0", Pattern: "{i:a}"}}})
	oneToOne(w, "use", Edge{ni, "o0"})
	oneToOne(ref, "use", es[1]) // the reference result: as if "norm" were not there
	c.Sample = "output path = input path: " + sample(w)
	c.Probe("in-place-output")
	ex := Eval(ref)
	// every input of "norm" exists before its task is scheduled: remember the
	// files as they are when they first appear (journal order does not matter:
	// they are written once)
	inc := RunInc(w, c.Tape, nil, 0, IncOpts{KillAt: -1, Strategy: strategyOf(c.Tape), Trace: c.Trace, Snapshots: true})
	c.Absorb(inc)
	c.Tasks = max(c.Tasks, 2)
	if v, ok := inconclusiveEnd(inc); ok {
		return v
	}
	for _, e := range inc.Sim.Shell.Trace {
		if e.Kind == "start" && e.Name == "norm" {
			return Viol("existing-output-reexecuted", "in-place", "task %s was executed although its output (= its input %v) already existed", e.Key, e.Argv)
		}
	}
	// the in-place files: identity when first complete vs at the end
	first := map[string]fileID{}
	var paths []string
	for _, it := range Eval(ref).Streams[ref.Nodes[es[1].Node].Name+"."+es[1].Port].Items {
		paths = append(paths, Abs(it.Path))
	}
	for _, sn := range inc.Snaps {
		for _, p := range paths {
			if _, seen := first[p]; seen {
				continue
			}
			if id, ok := idOf(sn.Root, p); ok && id.data == string(ex.Files[p]) {
				first[p] = id
			} else if src, isSrc := w.Sources[strings.TrimPrefix(p, "/work/")]; ok && isSrc && id.data == src {
				first[p] = id
			}
		}
	}
	for _, p := range paths {
		if _, ok := first[p]; !ok {
			if id, ok := idOf(inc.StartFS, p); ok {
				first[p] = id
			}
		}
	}
	for _, p := range paths {
		a, ok1 := first[p]
		b, ok2 := idOf(inc.Sim.FS.Root, p)
		if ok1 && (!ok2 || a != b) {
			return Viol("existing-output-modified", "in-place", "file %s is the declared output of a task and existed when the task was scheduled, but changed: (ino,mtime,bytes) %v -> %v", p, short(a), short(b))
		}
	}
	if !completedOK(inc) {
		return Viol("no-completion", "in-place", "workflow with an in-place output did not complete: %s", endDesc(inc))
	}
	if cl, d := checkFinalFiles(inc.Sim.FS.Root, ex, false); cl != "" {
		return Viol("downstream-not-served/"+cl, "in-place", "%s", d)
	}
	return OK()
}

func short(f fileID) string { return fmt.Sprintf("(%d,%d,%q)", f.ino, f.mtime, clip([]byte(f.data))) }

func keysOf(m map[string][]byte) []string {
	var k []string
	for p := range m {
		k = append(k, strings.TrimPrefix(p, "/work/"))
	}
	sort.Strings(k)
	return k
}

// --- C01 ---------------------------------------------------------------------------------

var profC01 = Profile{
	MaxProcs: 4, MaxItems: 3, Bufsizes: []int{0, 1, 2}, MaxSlots: 4,
	Params: true, MultiOut: true, FanIn: true, FanOut: true, Custom: true, CustomIdiom: true,
	Subdirs: true, ParentAbs: true, Extras: true, Cores: true, Zip: true, EmptyOuts: true, Joins: true,
}

// atomicState checks one file-system state against the atomicity property.
// started/finished: task keys with a start / exit(0) event so far (by journal
// position), appearance: journal entries that made a final path appear.
func atomicState(root, start *simrt.Inode, ex *Expect, done map[string]bool, what string, anyContent ...map[*RTask]bool) Verdict {
	files := WorkFiles(root)
	startFiles := WorkFiles(start)
	var paths []string
	for p := range files {
		paths = append(paths, p)
	}
	sort.Strings(paths)
	for _, p := range paths {
		e := files[p]
		if e.Kind != simrt.KFile {
			continue
		}
		if se, ok := startFiles[p]; ok && se.Ino == e.Ino {
			continue // existed before the incarnation
		}
		if underTmp(p) {
			continue
		}
		owner := ex.Owner[p]
		if owner != nil {
			want := owner.Content[portOf(owner, p)]
			if !done[owner.Key] {
				return Viol("output-before-success", sigCustom(owner), "%s: %s exists at its final path although no command of task %s has finished successfully (content %q)", what, p, owner.Key, clip(e.Data))
			}
			if len(anyContent) > 0 && anyContent[0][owner] {
				// the task read a STREAM whose producer was made to fail half-way: its
				// own command finished successfully on what it got; which bytes those
				// were is not this property's business
				continue
			}
			if string(e.Data) != string(want) {
				return Viol("partial-output-visible", sigCustom(owner), "%s: %s at its final path holds %q, the complete output is %q", what, p, clip(e.Data), clip(want))
			}
			continue
		}
		if ex.Extras[p] {
			continue
		}
		if strings.HasSuffix(p, ".audit.json") {
			b := strings.TrimSuffix(p, ".audit.json")
			if ex.Owner[b] != nil || ex.StreamPaths[b] {
				continue
			}
		}
		return Viol("stray-file", "", "%s: unfinished work escaped the temp directory: unexpected new file %s (%q)", what, p, clip(e.Data))
	}
	return OK()
}

func portOf(t *RTask, abs string) string {
	for port, p := range t.Outs {
		if Abs(p) == abs {
			return port
		}
	}
	return ""
}

func sigCustom(t *RTask) string {
	if t.Custom == 2 {
		return "gofunc-write-idiom"
	}
	return ""
}

// doneAt: task keys whose command exited 0 before journal position jseq.
func doneAt(tr []simrt.TraceEvent, jseq int) map[string]bool {
	d := map[string]bool{}
	for _, e := range tr {
		if e.Kind == "exit" && e.Code == 0 && e.JSeq <= jseq {
			d[e.Key] = true
		}
	}
	return d
}

func init() {
	Register(&Check{ID: "C01", Level: "fault_enumeration",
		Rule: "one case = one generated workflow (shell-command and Go-function tasks; output paths plain, in new sub-directories, parent-relative, absolute; extra files) under one tape-chosen schedule, optionally with one or two injected command failures (exit before / after partial / after complete write, signal at a micro-step, omitted output) or with a process whose command is an && list failing at its middle step; other shapes: same base names in different directories, FileSplitter (every visible part must be complete). For that schedule EVERY distinct crash state (the fs after each journalled fs mutation = every instant at which killing the process group leaves a different durable state) is enumerated and checked: a file at a declared final path implies an exit(0) of that task's command earlier in the journal and complete bytes; every other new regular file is an audit/log/extra file or lies below a _scipipe_tmp* directory. evaluations = incarnations; crash_states_enumerated counts the states checked. Round 5: streaming pairs (ordinary output written before or after the stream), consumers that close the stream early so that the producer dies of SIGPIPE. Round 6: a task whose command exits 0 without a declared output has failed; very long command lines; splitter inputs with the same base name, parts predicted from the input alone. Round 7: Go functions through sp.ExecCmd and with SetOut-only ports; outputs named *.log. distinct = event-log hash; non-trivial = >=2 tasks started and >=1 non-default choice",
		Run: func(c *Case) Verdict {
			var w *WF
			switch c.Tape.Choose(simrt.StGen, 8, 0) {
			case 1:
				w = sameNameWF(c)
			case 2:
				return splitterAtomicCase(c)
			case 3:
				// a streaming pair; in half of the cases the consumer reads only the
				// beginning of the stream and closes it (head -c): a producer that still
				// has more to write than the pipe holds dies of SIGPIPE - possibly after it
				// has written its ordinary output completely
				w = streamWF(c)
				if c.Tape.Choose(simrt.StFault, 2, 0) == 1 {
					earlyClose(c, w)
				}
			default:
				w = Generate(c.Tape, crashTierProfile(profC01, c.Tier))
			}
			for i := range w.Nodes {
				n := &w.Nodes[i]
				if n.Kind != KProc || n.Custom == 0 || len(n.Ins) == 0 || n.Ins[0].Join {
					continue
				}
				switch c.Tape.Choose(simrt.StGen, 4, 0) {
				case 1:
					// the out-ports of a Go-function process exist through SetOut only
					ok := true
					for _, o := range n.Outs {
						ok = ok && !strings.Contains(o.Pattern, "{i:a}") && !strings.Contains(o.Pattern, "/")
					}
					if ok || true {
						n.OutNotInCmd = true
						c.Probe("gofunc-ports-by-setout-only")
					}
				case 2:
					// the function shells out through the library's ExecCmd helper
					if len(n.Params) == 0 || !n.HiddenParams {
						n.Custom = 3
						c.Probe("gofunc-via-execcmd")
					}
				}
			}
			if c.Tape.Choose(simrt.StGen, 5, 0) == 1 {
				// a declared output whose name ends in .log (what a tool's log file is called)
				for i := range w.Nodes {
					if n := &w.Nodes[i]; n.Kind == KProc && len(n.Outs) > 0 && !n.Outs[0].Stream && n.Outs[0].Pattern != "" {
						n.Outs[0].Pattern += ".log"
						c.Probe("output-named-dot-log")
						break
					}
				}
			}
			if c.Tape.Choose(simrt.StGen, 6, 0) == 1 {
				// a command that returns while a child of it (which inherited its
				// stdout/stderr) still writes the rest of an output: `... | tee >(f > OUT)`
				var procs []*Node
				for i := range w.Nodes {
					if n := &w.Nodes[i]; n.Kind == KProc && n.Custom == 0 && len(n.Outs) > 0 && !n.Outs[0].Stream {
						procs = append(procs, n)
					}
				}
				if len(procs) > 0 {
					procs[c.Tape.Choose(simrt.StGen, len(procs), 0)].BgTail = true
					c.Fault("background-writer")
				}
			}
			ex := Eval(w)
			var fault, fault2 *FaultSpec
			what := ""
			failProc := ""
			switch c.Tape.Choose(simrt.StFault, 8, 0) {
			case 1, 2, 3, 4:
				// below: failure of one (or two) tape-chosen tasks
			case 5:
				// the command of one process is an && list whose middle step fails after
				// the first step wrote all outputs: no task of that process ever succeeds
				var procs []*Node
				for i := range w.Nodes {
					if n := &w.Nodes[i]; n.Kind == KProc && n.Custom == 0 && len(n.Outs) > 0 {
						procs = append(procs, n)
					}
				}
				if len(procs) > 0 {
					pn := procs[c.Tape.Choose(simrt.StFault, len(procs), 0)]
					pn.Suffix = []string{"&& false && true", "&& test -e no_such_file && true"}[c.Tape.Choose(simrt.StFault, 2, 0)]
					failProc = pn.Name
					what = fmt.Sprintf(" with every command of %s failing in the middle of its && list", pn.Name)
					c.Fault("cmd-list-middle-fails")
				}
			}
			diskFull := 0
			if failProc == "" && c.Tape.Choose(simrt.StFault, 6, 0) == 1 {
				for _, n := range w.Nodes {
					if n.Custom != 0 {
						// a Go-function task meets a full disk: one of its writes is short
						// and returns ENOSPC
						diskFull = 1 + c.Tape.Choose(simrt.StFault, 4, 0)
						what = fmt.Sprintf(" with the disk full at Go-level write #%d", diskFull)
						break
					}
				}
			}
			if k := c.Tape.Choose(simrt.StFault, 2, 0); k == 1 && failProc == "" && diskFull == 0 {
				var cands []*RTask
				for _, t := range ex.Tasks {
					if len(t.Outs) > 0 {
						cands = append(cands, t)
					}
				}
				if len(cands) > 0 {
					v := cands[c.Tape.Choose(simrt.StFault, len(cands), 0)]
					mode := simrt.FailMode(1 + c.Tape.Choose(simrt.StFault, 5, 0))
					fault = &FaultSpec{Key: v.Key, Mode: mode, Arg: c.Tape.Choose(simrt.StFault, 6, 0)}
					what = fmt.Sprintf(" with %s of %s", mode, v.Key)
					if len(cands) > 1 && c.Tape.Choose(simrt.StFault, 3, 0) == 1 {
						// a second task fails in the same run (possibly at the same time)
						v2 := cands[c.Tape.Choose(simrt.StFault, len(cands), 0)]
						if v2 != v {
							fault2 = &FaultSpec{Key: v2.Key, Mode: simrt.FailMode(1 + c.Tape.Choose(simrt.StFault, 5, 0)), Arg: c.Tape.Choose(simrt.StFault, 6, 0)}
							what += fmt.Sprintf(" and %s of %s", fault2.Mode, v2.Key)
							c.Fault("second-failure")
						}
					}
				}
			}
			if pn := w.NodeByName("prod"); pn != nil && len(ex.StreamPaths) > 0 && failProc == "" && diskFull == 0 {
				// a streaming producer with two ordinary outputs: often make one of ITS
				// tasks omit an ordinary output (which of the outputs the library looks at
				// or moves first is a matter of map order)
				plain := 0
				for _, o := range pn.Outs {
					if !o.Stream {
						plain++
					}
				}
				if plain >= 2 && c.Tape.Choose(simrt.StFault, 2, 0) == 1 {
					var pts []*RTask
					for _, t := range ex.Tasks {
						if t.Proc == "prod" {
							pts = append(pts, t)
						}
					}
					if len(pts) > 0 {
						v := pts[c.Tape.Choose(simrt.StFault, len(pts), 0)]
						fault = &FaultSpec{Key: v.Key, Mode: simrt.FailOmit, Arg: c.Tape.Choose(simrt.StFault, 6, 0)}
						fault2 = nil
						what = fmt.Sprintf(" with %s of %s", fault.Mode, v.Key)
					}
				}
			}
			for _, f := range []*FaultSpec{fault, fault2} {
				// "declared output not produced" is meant for ordinary outputs (a stream
				// that is never opened is another matter): aim at one of those
				if f == nil || f.Mode != simrt.FailOmit || len(ex.StreamPaths) == 0 {
					continue
				}
				for _, t := range ex.ByKey[f.Key] {
					outs := w.Nodes[t.Node].Outs
					var plain []int
					for i, o := range outs {
						if !o.Stream {
							plain = append(plain, i)
						}
					}
					if len(plain) == 0 {
						f.Mode = simrt.FailExitBefore
					} else {
						f.Arg = plain[f.Arg%len(plain)]
					}
				}
			}
			if c.Tape.Choose(simrt.StGen, 16, 0) == 1 {
				// one process gets a very long command line (more than a single argument
				// of execve may hold): it may have to reach the shell by another route
				for i := range w.Nodes {
					if n := &w.Nodes[i]; n.Kind == KProc && n.Custom == 0 && (fault == nil || strings.HasPrefix(fault.Key, n.Name+"|")) {
						n.LongArg = []int{70000, 140000}[c.Tape.Choose(simrt.StGen, 2, 0)]
						c.Fault("very-long-command-line")
						break
					}
				}
			}
			c.Sample = "crash-state enumeration" + what + ": " + sample(w)
			if len(c.Sample) > 4000 {
				c.Sample = c.Sample[:4000] + "..."
			}
			inc := RunInc(w, c.Tape, nil, 0, IncOpts{KillAt: -1, Strategy: strategyOf(c.Tape), Trace: c.Trace, Snapshots: true, Fault: fault, Fault2: fault2, DiskFullAt: diskFull})
			c.Absorb(inc)
			c.Tasks = max(c.Tasks, len(execKeys(inc.Sim.Shell.Trace, "start", 0)))
			if v, ok := inconclusiveEnd(inc); ok {
				return v
			}
			if len(inc.Sim.InvViol) > 0 {
				return Viol("temp-dir-not-private", "", "unfinished work of two tasks is not confined to private temp directories: %s", inc.Sim.InvViol[0])
			}
			tr := inc.Sim.Shell.Trace
			if failProc != "" {
				// the workload command itself exits 0, the task's command as a whole never does
				var tr2 []simrt.TraceEvent
				for _, e := range tr {
					if !(e.Kind == "exit" && strings.HasPrefix(e.Key, failProc+"|")) {
						tr2 = append(tr2, e)
					}
				}
				tr = tr2
			}
			for _, f := range []*FaultSpec{fault, fault2} {
				// a command that exits 0 without producing a declared output: the TASK
				// has failed, none of its outputs may appear
				if f != nil && f.Hit && f.Mode == simrt.FailOmit {
					var tr2 []simrt.TraceEvent
					for _, e := range tr {
						if !(e.Kind == "exit" && e.Key == f.Key) {
							tr2 = append(tr2, e)
						}
					}
					tr = tr2
				}
			}
			// consumers (and their descendants) of a streamed output of a failing task
			streamFed := map[*RTask]bool{}
			if len(ex.StreamPaths) > 0 {
				for _, f := range []*FaultSpec{fault, fault2} {
					if f == nil {
						continue
					}
					for _, t := range ex.ByKey[f.Key] {
						for d := range dependents(ex, t) {
							streamFed[d] = true
						}
					}
				}
			}
			for _, sn := range inc.Snaps {
				c.CrashStates++
				c.Fault("kill@state")
				if v := atomicState(sn.Root, inc.StartFS, ex, doneAt(tr, sn.JSeq), fmt.Sprintf("killed after fs operation #%d (%s %s %s, step %d)", sn.JSeq, sn.Entry.Op, sn.Entry.Path, sn.Entry.Path2, sn.Step), streamFed); v.Status != "ok" {
					return v
				}
				if len(sn.Running) > 0 {
					c.Probe("kill-while-command-running")
				}
			}
			// final state (after failure or completion)
			if v := atomicState(inc.Sim.FS.Root, inc.StartFS, ex, doneAt(tr, 1<<30), "after the program ended ("+inc.Sim.End.String()+")", streamFed); v.Status != "ok" {
				return v
			}
			return OK()
		}})
}

// earlyClose makes every consumer of a streamed output read only the first
// few bytes and gives the producer a payload beyond pipe capacity + that.
func earlyClose(c *Case, w *WF) {
	head := 4 + 8*c.Tape.Choose(simrt.StFault, 3, 0)
	for i := range w.Nodes {
		n := &w.Nodes[i]
		if n.Name == "prod" {
			n.PadTo = 400 + 100*c.Tape.Choose(simrt.StFault, 3, 0)
		}
		if n.Name == "cons" || n.Name == "cons2" {
			n.Head = head
		}
	}
	c.Fault("reader-closes-early")
}

// splitterAtomicCase: FileSplitter finalizes its parts one by one while it goes
// on writing the next one. Whatever is visible at a part's final path in any
// crash state must already be the complete part (= what an uninterrupted run
// leaves there); unfinished parts stay below the component's temp directory.
func splitterAtomicCase(c *Case) Verdict {
	t := c.Tape
	w := &WF{Name: "wf", Sources: map[string]string{}}
	nf := 1 + t.Choose(simrt.StGen, 2, 0)
	// (two inputs that share their base name, in different directories)
	sameBase := nf == 2 && t.Choose(simrt.StGen, 2, 0) == 1
	src := Node{Name: "src0", Kind: KFileSrc}
	for i := 0; i < nf; i++ {
		lines := t.Choose(simrt.StGen, 8, 0)
		p := fmt.Sprintf("lines%d.txt", i)
		if sameBase {
			p = fmt.Sprintf("dir%d/lines.txt", i)
		}
		var b strings.Builder
		for l := 0; l < lines; l++ {
			fmt.Fprintf(&b, "file %d line %d %s\n", i, l, strings.Repeat("x", 3*l))
		}
		src.Files = append(src.Files, p)
		w.Sources[p] = b.String()
	}
	s := addNode(w, src)
	sp := addNode(w, Node{Name: "split", Kind: KSplitter, SplitLines: 1 + t.Choose(simrt.StGen, 3, 0),
		Ins: []InSpec{{Name: "file", From: []Edge{{s, "out"}}}}, Outs: []OutSpec{{Name: "split_file"}}})
	oneToOne(w, "use", Edge{sp, "split_file"})
	w.MaxTasks = 1 + t.Choose(simrt.StGen, 3, 0)
	w.Bufsize = bufsizeOf(t)
	c.Sample = "crash-state enumeration, FileSplitter: " + sample(w)
	inc := RunInc(w, c.Tape, nil, 0, IncOpts{KillAt: -1, Strategy: strategyOf(c.Tape), Trace: c.Trace, Snapshots: true})
	c.Absorb(inc)
	c.Tasks = max(c.Tasks, len(execKeys(inc.Sim.Shell.Trace, "start", 0)))
	if v, ok := inconclusiveEnd(inc); ok {
		return v
	}
	isPart := func(p string) bool {
		return strings.Contains(p, ".txt.split_") && !strings.HasSuffix(p, ".audit.json") && !strings.Contains(p, ".use.")
	}
	// what a part may hold, computed from the input alone: part k of a file is its
	// k-th block of SplitLines lines (one further, empty part may follow the last
	// block). Checked in every crash state and at the end, also when the run
	// stopped with an error.
	L := w.NodeByName("split").SplitLines
	expected := map[string]string{}
	for _, f := range src.Files {
		lines := strings.SplitAfter(w.Sources[f], "\n")
		if len(lines) > 0 && lines[len(lines)-1] == "" {
			lines = lines[:len(lines)-1]
		}
		k := 1
		for i := 0; i < len(lines); i += L {
			j := i + L
			if j > len(lines) {
				j = len(lines)
			}
			expected[Abs(fmt.Sprintf("%s.split_%d", f, k))] = strings.Join(lines[i:j], "")
			k++
		}
		if _, ok := expected[Abs(fmt.Sprintf("%s.split_%d", f, k))]; !ok {
			expected[Abs(fmt.Sprintf("%s.split_%d", f, k))] = "" // (a trailing empty part)
		}
	}
	states := append([]Snap{}, inc.Snaps...)
	states = append(states, Snap{Root: inc.Sim.FS.Root, JSeq: 1 << 30})
	for _, sn := range states {
		wf4 := WorkFiles(sn.Root)
		for _, p := range sortedKeys(wf4) {
			e := wf4[p]
			if e.Kind != simrt.KFile || underTmp(p) || !isPart(p) {
				continue
			}
			want, ok := expected[p]
			if !ok {
				return Viol("stray-file", "splitter", "after fs operation #%d: %s is visible but is no part of any input", sn.JSeq, p)
			}
			if string(e.Data) != want {
				return Viol("partial-output-visible", "splitter", "after fs operation #%d (%s %s): part %s at its final path holds %q, the complete part is %q", sn.JSeq, sn.Entry.Op, sn.Entry.Path, p, clip(e.Data), clip([]byte(want)))
			}
		}
	}
	if !completedOK(inc) {
		return Skipped(Viol("no-completion", "", "workflow around FileSplitter did not complete: %s", endDesc(inc)))
	}
	final := WorkFiles(inc.Sim.FS.Root)
	for _, sn := range inc.Snaps {
		c.CrashStates++
		c.Fault("kill@state")
		wf5 := WorkFiles(sn.Root)
		for _, p := range sortedKeys(wf5) {
			e := wf5[p]
			if e.Kind != simrt.KFile || underTmp(p) || !isPart(p) {
				continue
			}
			fe, ok := final[p]
			if !ok {
				return Viol("stray-file", "splitter", "killed after fs operation #%d: %s is visible but does not exist after an uninterrupted run", sn.JSeq, p)
			}
			if string(e.Data) != string(fe.Data) {
				return Viol("partial-output-visible", "splitter", "killed after fs operation #%d (%s %s): part %s at its final path holds %q, the complete part is %q", sn.JSeq, sn.Entry.Op, sn.Entry.Path, p, clip(e.Data), clip(fe.Data))
			}
		}
	}
	return OK()
}

// sameNameWF: tasks of one process whose inputs differ only in the directory
// (and optionally only in a parameter / an upstream directory): their
// unfinished work must still live in different temp directories.
func sameNameWF(c *Case) *WF {
	t := c.Tape
	w := &WF{Name: "wf", Sources: map[string]string{}}
	n := 1 + t.Choose(simrt.StGen, 2, 0)
	dirs := []string{"a/", "b/", "c/x/"}
	k := 2 + t.Choose(simrt.StGen, 2, 0)
	var from []Edge
	for d := 0; d < k; d++ {
		node := Node{Name: fmt.Sprintf("src%d", d), Kind: KFileSrc}
		for i := 0; i < n; i++ {
			p := fmt.Sprintf("%sjob_%d.txt", dirs[d], i)
			node.Files = append(node.Files, p)
			w.Sources[p] = fmt.Sprintf("source %s\n", p)
		}
		from = append(from, Edge{addNode(w, node), "out"})
	}
	p0 := addNode(w, Node{Name: "p0", Kind: KProc, Cores: 1, Ins: []InSpec{{Name: "a", From: from}},
		Outs: []OutSpec{{Name: "o0", Pattern: "{i:a}.p0.o0"}}})
	if t.Choose(simrt.StGen, 2, 0) == 1 {
		oneToOne(w, "p1", Edge{p0, "o0"})
	}
	w.MaxTasks = 2 + t.Choose(simrt.StGen, 3, 0)
	w.Bufsize = bufsizeOf(t)
	return w
}

// --- C03 ---------------------------------------------------------------------------------

var profC03 = Profile{
	MaxProcs: 3, MaxItems: 2, Bufsizes: []int{0, 1, 2}, MaxSlots: 3,
	Params: true, MultiOut: true, FanIn: true, FanOut: true,
	// (outputs on the second file system fail to be finalized on the unchanged tree - such
	// cases are skipped as a failed precondition, about one in eleven - but a change that
	// makes them succeed by copying must converge after a kill inside the copy: kept)
	Subdirs: true, ParentAbs: true, Extras: true, Cores: true, Zip: true, EmptyOuts: true, Joins: true,
	// (Go-function tasks work in temp directories too; both ways of writing)
	Custom: true, CustomIdiom: true,
	// (tagging components re-write the audit file of an EXISTING output in place)
	Taggers: true,
}

// finalBefore: declared outputs that are already final (present) in a tree.
func finalBefore(root *simrt.Inode, ex *Expect) map[string]fileID {
	m := map[string]fileID{}
	for p := range ex.Owner {
		if id, ok := idOf(root, p); ok {
			m[p] = id
		}
	}
	return m
}

// recoverFrom runs "cleanup (optional) + rerun" on a crash state and checks
// convergence. Returns the recovery incarnation for nesting.
func recoverFrom(c *Case, w *WF, ex *Expect, sn Snap, cleanup bool, snapshots bool, what string) (*Inc, Verdict) {
	root := sn.Root
	if cleanup {
		root = Cleanup(root)
	}
	left := Leftovers(root)
	before := finalBefore(root, ex)
	inc := RunInc(w, c.Tape, root, sn.NextIno, IncOpts{KillAt: -1, Strategy: strategyOf(c.Tape), Trace: c.Trace, Snapshots: snapshots})
	c.Absorb(inc)
	if v, ok := inconclusiveEnd(inc); ok {
		return inc, v
	}
	s := inc.Sim
	if !cleanup && len(left) > 0 {
		// leftovers present: the rerun must refuse instead of adopting them
		if completedOK(inc) || s.ExitCode == 0 {
			sig := ""
			if taggerSharesRecord(w) {
				// (known finding F-C03-5: the temp directory name of a tagger's sibling
				// depends on whether the tag had been attached when the task was formed)
				sig = "sibling-of-tagger-tempdir"
			}
			return inc, Viol("leftovers-adopted", sig, "%s; leftovers %v not removed, yet the re-run ended with %s", what, left, endDesc(inc))
		}
		if s.End == simrt.EndDeadlock {
			return inc, Viol("leftovers-hang", deadlockSig(inc), "%s; leftovers %v not removed and the re-run hangs: %s", what, left, endDesc(inc))
		}
		// whatever it finalized before stopping is still correct
		for p, want := range ex.Files {
			if ex.Extras[p] || ex.Owner[p] == nil {
				continue // only what TASKS finalize (a Concatenator writes its output in place)
			}
			if id, ok := idOf(s.FS.Root, p); ok && id.data != string(want) {
				return inc, Viol("wrong-content-after-refusal", "", "%s; re-run without cleanup left %s with %q (reference %q)", what, p, clip([]byte(id.data)), clip(want))
			}
		}
		return inc, OK()
	}
	if !completedOK(inc) {
		return inc, Viol("no-convergence", convSig(inc, ex, root), "%s; after cleanup the re-run does not complete: %s", what, endDesc(inc))
	}
	if cl, d := checkFinalFiles(s.FS.Root, ex, false); cl != "" {
		return inc, Viol("no-convergence/"+cl, convSig(inc, ex, root), "%s; after cleanup + re-run: %s", what, d)
	}
	for p, a := range before {
		b, ok := idOf(s.FS.Root, p)
		if !ok || a.ino != b.ino || a.mtime != b.mtime || a.data != b.data {
			return inc, Viol("finalized-output-rewritten", "", "%s; output %s was final before the re-run but changed: %v -> %v", what, p, short(a), short(b))
		}
	}
	// no re-execution of tasks whose outputs had all been finalized
	for _, e := range s.Shell.Trace {
		if e.Kind != "start" {
			continue
		}
		for _, t := range ex.ByKey[e.Key] {
			all := len(t.Outs) > 0
			for _, p := range t.Outs {
				if _, ok := before[Abs(p)]; !ok {
					all = false
				}
			}
			if all {
				return inc, Viol("finalized-task-reexecuted", "", "%s; task %s was re-executed although all its outputs were final", what, e.Key)
			}
		}
	}
	return inc, OK()
}

// convSig classifies a non-converging crash state structurally, for the
// known-findings file: the failure is attributed to "kill between the renames
// of one task's outputs" only if the crash state holds a task with some but
// not all declared outputs final AND what fails (the missing file, or the
// command that failed in the re-run) is one of that task's lost outputs or
// depends on one.
func convSig(inc *Inc, ex *Expect, root *simrt.Inode) string {
	// known finding F-C03-4: the crash state holds an EMPTY audit file (the kill
	// fell between the truncation and the write of a tagging component's re-write)
	// and the re-run stopped because it could not parse exactly that file
	if inc.Sim.End == simrt.EndExit && inc.Sim.ExitCode != 0 {
		const msg = "Could not unmarshal audit log file content: "
		if i := strings.Index(string(inc.Sim.Stderr), msg); i >= 0 {
			name := string(inc.Sim.Stderr)[i+len(msg):]
			if j := strings.IndexByte(name, '\n'); j >= 0 {
				name = name[:j]
			}
			abs := name
			if !strings.HasPrefix(abs, "/") {
				abs = cleanPath("/work/" + name)
			}
			// (the finding is the RE-write by a tagging component: the file whose record
			// is torn exists at its final path in the crash state and passes a tagger
			// in this workflow. An empty audit file next to a file that is not there
			// yet, or of a file no tagger touches, is harmless on the unchanged tree -
			// a re-run that stops on it is something else.)
			data := strings.TrimSuffix(abs, ".audit.json")
			if n := simrt.Find(root, abs); n != nil && n.Kind == simrt.KFile && len(n.Data) == 0 && strings.HasSuffix(abs, ".audit.json") && ex.Retagged[data] {
				if d := simrt.Find(root, data); d != nil && d.Kind == simrt.KFile {
					return "torn-audit-rewrite"
				}
			}
		}
	}
	lost := map[string]bool{}    // abs paths
	tainted := map[*RTask]bool{} // tasks depending on a lost output
	for _, t := range ex.Tasks {
		n, fin := 0, 0
		for _, p := range t.Outs {
			if ex.StreamPaths[Abs(p)] {
				continue
			}
			n++
			if _, ok := idOf(root, Abs(p)); ok {
				fin++
			}
		}
		if n >= 2 && fin > 0 && fin < n {
			for _, p := range t.Outs {
				if _, ok := idOf(root, Abs(p)); !ok {
					lost[Abs(p)] = true
				}
			}
		}
	}
	if len(lost) == 0 {
		return ""
	}
	changed := true
	for changed {
		changed = false
		for _, u := range ex.Tasks {
			if tainted[u] {
				continue
			}
			for _, it := range u.Ins {
				if lost[Abs(it.Path)] {
					tainted[u] = true
				}
				for _, m := range it.Sub {
					if lost[Abs(m.Path)] {
						tainted[u] = true
					}
				}
			}
			if tainted[u] {
				changed = true
				for _, p := range u.Outs {
					lost[Abs(p)] = true
				}
				node := &ex.WF.Nodes[u.Node]
				for _, x := range node.Extras {
					lost[Abs(expandPattern(x, u.Ins, u.Params))] = true
				}
			}
		}
	}
	s := inc.Sim
	if completedOK(inc) {
		// the re-run completed: every expected file that is missing must be explained
		for p := range ex.Files {
			if _, ok := idOf(s.FS.Root, p); !ok && !lost[p] {
				return ""
			}
		}
		return "kill-between-output-renames"
	}
	// the re-run stopped: it must have stopped because a command that depends
	// on a lost output failed, and for no other reason
	if s.End != simrt.EndExit {
		return ""
	}
	failed := 0
	for _, e := range s.Shell.Trace {
		if e.Kind == "exit" && e.Code != 0 {
			failed++
			ok := false
			for _, t := range ex.ByKey[e.Key] {
				if tainted[t] {
					ok = true
				}
			}
			if !ok {
				return ""
			}
		}
	}
	if failed == 0 {
		return ""
	}
	return "kill-between-output-renames"
}

// concatWF: a gathering component that writes its output in place
// (Concatenator) between command processes.
func concatWF(c *Case) *WF {
	t := c.Tape
	w := &WF{Name: "wf", Sources: map[string]string{}}
	n := 1 + t.Choose(simrt.StGen, 3, 0)
	e := Edge{srcNode(w, "src0", n, ""), "out"}
	if t.Choose(simrt.StGen, 2, 0) == 1 {
		e = Edge{oneToOne(w, "pre", e), "o0"}
	}
	cc := addNode(w, Node{Name: "cat", Kind: KConcat, OutPath: "concat/all.txt",
		Ins: []InSpec{{Name: "in", From: []Edge{e}}}, Outs: []OutSpec{{Name: "out"}}})
	if t.Choose(simrt.StGen, 2, 0) == 1 {
		u := oneToOne(w, "use", Edge{cc, "out"})
		if t.Choose(simrt.StGen, 2, 0) == 1 {
			// (a Go function: it may read its input through FileIP.Open + Size)
			w.Nodes[u].Custom = 1
		}
	}
	w.MaxTasks = 1 + t.Choose(simrt.StGen, 3, 0)
	w.Bufsize = bufsizeOf(t)
	return w
}

// streamLeftoverCase: streaming workflows, only the clause "if leftovers
// (temp directories, FIFOs) are not removed, the re-run stops with a non-zero
// exit status instead of adopting them" (convergence of streaming re-runs is
// C17's business, and broken there by F-C17-2).
func streamLeftoverCase(c *Case) Verdict {
	w := streamWF(c)
	ex := Eval(w)
	c.Sample = "streaming, re-run on leftovers without cleanup: " + sample(w)
	inc := RunInc(w, c.Tape, nil, 0, IncOpts{KillAt: -1, Strategy: strategyOf(c.Tape), Trace: c.Trace, Snapshots: true})
	c.Absorb(inc)
	if v := flowOracle(inc, ex); v.Status != "ok" {
		return foreign(v)
	}
	for _, sn := range inc.Snaps {
		left := Leftovers(sn.Root)
		if len(left) == 0 {
			continue
		}
		c.CrashStates++
		c.Fault("kill@state")
		c.Fault("rerun-without-cleanup")
		inc2 := RunInc(w, c.Tape, sn.Root, sn.NextIno, IncOpts{KillAt: -1, Strategy: strategyOf(c.Tape), Trace: c.Trace})
		c.Absorb(inc2)
		if v, ok := inconclusiveEnd(inc2); ok {
			return v
		}
		what := fmt.Sprintf("killed after fs operation #%d (%s %s)", sn.JSeq, sn.Entry.Op, strings.TrimPrefix(sn.Entry.Path, "/work/"))
		if completedOK(inc2) || (inc2.Sim.End == simrt.EndExit && inc2.Sim.ExitCode == 0) {
			return Viol("leftovers-adopted", "", "%s; leftovers %v not removed, yet the re-run ended with %s", what, left, endDesc(inc2))
		}
	}
	return OK()
}

func init() {
	Register(&Check{ID: "C03", Level: "fault_enumeration",
		Rule: "one case = one generated workflow under one tape-chosen schedule; for that schedule EVERY distinct crash state (fs after each journalled mutation) is used as a kill point, and for each the history 'cleanup of _scipipe_tmp*/FIFO entries + re-run' is executed and must converge: exit 0, file set and bytes = reference (= uninterrupted result), outputs final before the re-run keep (inode, mtime), no task with all outputs final is re-executed. For tape-chosen states additionally: re-run WITHOUT cleanup (must refuse with exit != 0 whenever a leftover exists, finalized files still correct) and a nested crash during recovery (kill the re-run at a tape-chosen crash state, cleanup, re-run). evaluations = incarnations; Round 5: Go-function tasks; one case in four starts the crashing run from a completed run whose results were deleted while their audit files stayed. Round 6: a Go-function consumer (FileIP.Open + Size) behind the Concatenator. Round 7: tagging components in the crash histories. distinct = event-log hash over the whole history; non-trivial = >=2 tasks and >=1 non-default choice",
		Run: func(c *Case) Verdict {
			var w *WF
			switch c.Tape.Choose(simrt.StGen, 8, 0) {
			case 1:
				return streamLeftoverCase(c)
			case 2:
				w = concatWF(c)
			default:
				w = Generate(c.Tape, crashTierProfile(profC03, c.Tier))
			}
			ex := Eval(w)
			c.Sample = "crash/cleanup/re-run at every crash state: " + sample(w)
			var root0 *simrt.Inode
			nextIno0 := 0
			if len(ex.StreamPaths) == 0 && c.Tape.Choose(simrt.StGen, 4, 0) == 1 {
				// the crashing run is itself a re-run: an earlier run completed, then the
				// user deleted some results to have them re-made - but only the data files,
				// their .audit.json files are still there (orphans) when the run is killed
				inc0 := RunInc(w, c.Tape, nil, 0, IncOpts{KillAt: -1, Strategy: strategyOf(c.Tape), Trace: c.Trace})
				c.Absorb(inc0)
				if v := flowOracle(inc0, ex); v.Status != "ok" {
					if v.Status == "violation" {
						return Skipped(v)
					}
					return v
				}
				root0 = inc0.Sim.FS.Snapshot()
				nextIno0 = inc0.Sim.FS.NextIno
				n := 0
				for _, t := range ex.Tasks {
					if len(t.Outs) == 0 || c.Tape.Choose(simrt.StGen, 2, 0) == 1 {
						continue
					}
					for _, p := range t.Outs {
						ap := Abs(p)
						if dir := simrt.Find(root0, ap[:strings.LastIndex(ap, "/")]); dir != nil {
							delete(dir.Ents, baseName(ap))
							n++
						}
					}
				}
				if n > 0 {
					c.Fault("orphan-audit-files")
					c.Sample = "results deleted, their audit files kept; " + c.Sample
				}
			}
			inc := RunInc(w, c.Tape, root0, nextIno0, IncOpts{KillAt: -1, Strategy: strategyOf(c.Tape), Trace: c.Trace, Snapshots: true})
			c.Absorb(inc)
			if root0 != nil {
				// (tasks whose results were kept are rightly not executed again)
				if v, ok := inconclusiveEnd(inc); ok {
					return v
				}
				if !completedOK(inc) {
					return Skipped(Viol("no-completion", "", "the uninterrupted re-run does not complete: %s", endDesc(inc)))
				}
				if cl, d := checkFinalFiles(inc.Sim.FS.Root, ex, false); cl != "" {
					return Skipped(Viol(cl, "", "uninterrupted re-run: %s", d))
				}
			} else if v := flowOracle(inc, ex); v.Status != "ok" {
				if v.Status == "violation" {
					return Skipped(v) // the uninterrupted run itself is wrong: not this property's business
				}
				return v
			}
			nested := -1
			nocleanup := -1
			if len(inc.Snaps) > 0 {
				nested = c.Tape.Choose(simrt.StKill, len(inc.Snaps), 0)
				nocleanup = c.Tape.Choose(simrt.StKill, len(inc.Snaps), 0)
			}
			for i, sn := range inc.Snaps {
				c.CrashStates++
				c.Fault("kill@state")
				what := fmt.Sprintf("killed after fs operation #%d (%s %s %s, step %d)", sn.JSeq, sn.Entry.Op, strings.TrimPrefix(sn.Entry.Path, "/work/"), strings.TrimPrefix(sn.Entry.Path2, "/work/"), sn.Step)
				rec, v := recoverFrom(c, w, ex, sn, true, i == nested, what)
				if v.Status != "ok" {
					if c.Known(v) {
						continue
					}
					return v
				}
				if i == nocleanup {
					c.Fault("rerun-without-cleanup")
					if _, v := recoverFrom(c, w, ex, sn, false, false, what); v.Status != "ok" {
						return v
					}
				}
				if i == nested && len(rec.Snaps) > 0 {
					j := c.Tape.Choose(simrt.StKill, len(rec.Snaps), 0)
					c.Fault("kill-during-recovery")
					sn2 := rec.Snaps[j]
					what2 := fmt.Sprintf("%s; then the recovery run killed after its fs operation #%d (%s %s)", what, sn2.JSeq, sn2.Entry.Op, strings.TrimPrefix(sn2.Entry.Path, "/work/"))
					if _, v := recoverFrom(c, w, ex, sn2, true, false, what2); v.Status != "ok" && !c.Known(v) {
						return v
					}
				}
			}
			return OK()
		}})
}
