package harness

import (
	"fmt"
	"regexp"
	"sort"
	"strings"

	"verif/simrt"
)

// Independent, sequential reference evaluation of a workflow IR. Shares no
// code with scipipe. A workflow is evaluated as streams: task i of a node is
// the i-th item of each in-port and parameter port; the number of tasks is
// the length of the shortest stream (the generator only zips equal lengths).

type Lin struct {
	Source   bool
	Proc     string
	Params   map[string]string
	Tags     map[string]string
	OutFiles map[string]string
	Upstream map[string]*Lin
	TaskKey  string
	// Attached: tags a tagging component attached to this record after it
	// was created (visible for certain only downstream of the tagger)
	Attached map[string]string
}

type Item struct {
	Path    string
	Content []byte
	Lin     *Lin
	Sub     []Item // members, if this item is a sub-stream carrier
	IsSub   bool
	Stream  bool              // handed over through a FIFO: no file at Path
	Missing bool              // sibling output of a skipped task that is not on disk
	Tags    map[string]string // tags attached along the route this item travelled
}

type Stream struct {
	Items   []Item
	Vals    []string // parameter stream
	IsParam bool
	Ordered bool
}

type RTask struct {
	Node    int
	Proc    string
	Key     string
	Index   int
	InPorts []string
	Ins     map[string]Item
	Params  map[string]string
	Outs    map[string]string // port -> final path (as given to scipipe, relative to cwd)
	Cores   int
	Custom  int
	Content map[string][]byte // port -> expected bytes
	Lin     *Lin
	Joined  map[string][]Item
	// with pre-existing outputs (C02/C03): the task must be skipped; a
	// skipped multi-output task whose sibling output is absent leaves its
	// consumers undefined (the property promises nothing about them)
	Skipped   bool
	Undefined bool
}

type Expect struct {
	WF          *WF
	Tasks       []*RTask
	ByKey       map[string][]*RTask
	Files       map[string][]byte  // abs path -> content of every expected final regular file
	Owner       map[string]*RTask  // abs path -> producing task
	Streams     map[string]*Stream // "node.port"
	Active      map[string]bool    // nodes in the run set (RunTo closure)
	Lins        map[string]*Lin    // abs path -> lineage of the file at that path
	StreamPaths map[string]bool    // abs paths of streamed (FIFO) outputs
	Pre         map[string][]byte  // abs path -> bytes of files that exist before the run
	Extras      map[string]bool    // abs paths of extra files commands create
	Tagged      bool
	TagKeys     map[string]bool
	Attached    map[string]map[string]string // tags a tagger attached to the record of the file at a path

	Retagged map[string]bool // abs paths of files that pass a tagging component (which re-writes their audit file, tagged or not)

	consumers map[*Lin][]*RTask          // (cache) tasks that take a file of that lineage as input
	depCache  map[*RTask]map[*RTask]bool // (cache) see dependents
}

func Abs(p string) string {
	if strings.HasPrefix(p, "/") {
		return cleanPath(p)
	}
	return cleanPath("/work/" + p)
}

func cleanPath(p string) string {
	var out []string
	for _, c := range strings.Split(p, "/") {
		switch c {
		case "", ".":
		case "..":
			if len(out) > 0 {
				out = out[:len(out)-1]
			}
		default:
			out = append(out, c)
		}
	}
	return "/" + strings.Join(out, "/")
}

func baseName(p string) string {
	if i := strings.LastIndex(p, "/"); i >= 0 {
		return p[i+1:]
	}
	return p
}

// expand handles the plain placeholders the generator uses in path patterns.
func expandPattern(pat string, ins map[string]Item, params map[string]string) string {
	out := pat
	for name, it := range ins {
		out = strings.ReplaceAll(out, "{i:"+name+"}", it.Path)
		out = strings.ReplaceAll(out, "{i:"+name+"|basename}", baseName(it.Path))
		// {t:port.key}: a tag the item carries (an unreplaced placeholder stays: the
		// task cannot be formed)
		if it.Lin != nil {
			for k, v := range it.Lin.Tags {
				out = strings.ReplaceAll(out, "{t:"+name+"."+k+"}", v)
			}
		}
		for k, v := range it.Tags {
			out = strings.ReplaceAll(out, "{t:"+name+"."+k+"}", v)
		}
	}
	for name, v := range params {
		out = strings.ReplaceAll(out, "{p:"+name+"}", v)
	}
	return out
}

func (w *WF) closure() map[string]bool {
	act := map[string]bool{}
	if len(w.RunTo) == 0 {
		for _, n := range w.Nodes {
			act[n.Name] = true
		}
		return act
	}
	var visit func(i int)
	visit = func(i int) {
		n := &w.Nodes[i]
		if act[n.Name] {
			return
		}
		act[n.Name] = true
		for _, in := range n.Ins {
			for _, e := range in.From {
				visit(e.Node)
			}
		}
		for _, p := range n.Params {
			if p.From != nil {
				visit(p.From.Node)
			}
		}
	}
	for _, t := range w.RunTo {
		var re *regexp.Regexp
		if w.RunToMode == 1 {
			re = regexp.MustCompile(t)
		}
		for i := range w.Nodes {
			if (re == nil && w.Nodes[i].Name == t) || (re != nil && re.MatchString(w.Nodes[i].Name)) {
				visit(i)
			}
		}
	}
	return act
}

func copyTags(m map[string]string) map[string]string {
	o := map[string]string{}
	for k, v := range m {
		o[k] = v
	}
	return o
}

func Eval(w *WF) *Expect { return EvalWith(w, nil) }

// EvalWith evaluates the workflow given files that already exist at output
// paths before the run (pre: abs path -> bytes).
func EvalWith(w *WF, pre map[string][]byte) *Expect {
	ex := &Expect{WF: w, Pre: pre, Extras: map[string]bool{}, TagKeys: map[string]bool{}, Attached: map[string]map[string]string{}, ByKey: map[string][]*RTask{}, Files: map[string][]byte{}, Owner: map[string]*RTask{},
		Streams: map[string]*Stream{}, Lins: map[string]*Lin{}, StreamPaths: map[string]bool{}}
	ex.Active = w.closure()
	for p, c := range w.Sources {
		ex.Lins[Abs(p)] = &Lin{Source: true, Params: map[string]string{}, Tags: map[string]string{}, OutFiles: map[string]string{}, Upstream: map[string]*Lin{}}
		_ = c
	}
	for ni := range w.Nodes {
		n := &w.Nodes[ni]
		if !ex.Active[n.Name] {
			continue
		}
		switch n.Kind {
		case KFileSrc:
			st := &Stream{Ordered: true}
			for _, f := range n.Files {
				lin := ex.Lins[Abs(f)]
				if lin == nil {
					lin = &Lin{Source: true, Params: map[string]string{}, Tags: map[string]string{}, OutFiles: map[string]string{}, Upstream: map[string]*Lin{}}
					ex.Lins[Abs(f)] = lin
				}
				it := Item{Path: f, Content: []byte(w.Sources[f]), Lin: lin}
				if b, ok := ex.Files[Abs(f)]; ok {
					it.Content = b // a file produced by the first workflow of the program
				}
				if n.Stage > 0 && len(ex.Attached[Abs(f)]) > 0 {
					// the first workflow has returned: what its tagging components
					// attached is in the file's record on disk
					it.Tags = copyTags(ex.Attached[Abs(f)])
				}
				st.Items = append(st.Items, it)
			}
			ex.Streams[n.Name+".out"] = st
		case KParamSrc:
			ex.Streams[n.Name+".out"] = &Stream{IsParam: true, Vals: append([]string(nil), n.Vals...), Ordered: true}
		case KProc:
			ex.evalProc(ni)
		default:
			ex.evalComponent(ni)
		}
	}
	return ex
}

func (ex *Expect) inStream(in InSpec) *Stream {
	w := ex.WF
	st := &Stream{Ordered: len(in.From) <= 1}
	for _, e := range in.From {
		up := ex.Streams[w.Nodes[e.Node].Name+"."+e.Port]
		if up == nil {
			continue // upstream outside the run set cannot happen for active nodes
		}
		st.Items = append(st.Items, up.Items...)
		st.Ordered = st.Ordered && up.Ordered
	}
	return st
}

func (ex *Expect) evalProc(ni int) {
	w := ex.WF
	n := &w.Nodes[ni]
	var ins []*Stream
	count := -1
	ordered := true
	upd := func(l int) {
		if count < 0 || l < count {
			count = l
		}
	}
	for _, in := range n.Ins {
		st := ex.inStream(in)
		ins = append(ins, st)
		upd(len(st.Items))
		ordered = ordered && st.Ordered
	}
	var pvals [][]string
	for _, p := range n.Params {
		var vals []string
		if p.From != nil {
			up := ex.Streams[w.Nodes[p.From.Node].Name+"."+p.From.Port]
			if up != nil {
				vals = up.Vals
				ordered = ordered && up.Ordered
			}
			if len(p.Vals) > 0 {
				// also fed by FromStr: the two feeders interleave in an order that is not determined
				vals = append(append([]string(nil), vals...), p.Vals...)
				ordered = false
			}
		} else {
			vals = p.Vals
		}
		pvals = append(pvals, vals)
		upd(len(vals))
	}
	if count < 0 {
		count = 1 // no ports: runs exactly once
	}
	outs := map[string]*Stream{}
	for _, o := range n.Outs {
		outs[o.Name] = &Stream{Ordered: ordered}
	}
	for i := 0; i < count; i++ {
		t := &RTask{Node: ni, Proc: n.Name, Index: i, Ins: map[string]Item{}, Params: map[string]string{}, Outs: map[string]string{},
			Cores: n.Cores, Custom: n.Custom, Content: map[string][]byte{}, Joined: map[string][]Item{}}
		var inPaths []string
		var inData [][]byte
		var pkv []string
		lin := &Lin{Proc: n.Name, Params: map[string]string{}, Tags: map[string]string{}, OutFiles: map[string]string{}, Upstream: map[string]*Lin{}}
		for k, in := range n.Ins {
			it := ins[k].Items[i]
			t.Ins[in.Name] = it
			t.InPorts = append(t.InPorts, in.Name)
			if in.Join {
				t.Joined[in.Name] = it.Sub
				for _, m := range it.Sub {
					inPaths = append(inPaths, relWork(m.Path))
					inData = append(inData, m.Content)
					lin.Upstream[m.Path] = m.Lin
				}
				continue
			}
			inPaths = append(inPaths, relWork(it.Path))
			inData = append(inData, it.Content)
			lin.Upstream[it.Path] = it.Lin
			for tk, tv := range it.Lin.Tags {
				lin.Tags[tk] = tv
			}
			for tk, tv := range it.Tags {
				lin.Tags[tk] = tv
			}
		}
		if n.Head > 0 {
			for k := range inData {
				if len(inData[k]) > n.Head {
					inData[k] = inData[k][:n.Head]
				}
			}
		}
		for k, p := range n.Params {
			v := pvals[k][i]
			t.Params[p.Name] = v
			lin.Params[p.Name] = v
			pkv = append(pkv, p.Name+"="+v)
		}
		for _, pk := range n.TagArgs {
			port, key := pk[:strings.Index(pk, ".")], pk[strings.Index(pk, ".")+1:]
			it := t.Ins[port]
			v := it.Tags[key]
			if v == "" && it.Lin != nil {
				v = it.Lin.Tags[key]
			}
			pkv = append(pkv, "tg_"+strings.ReplaceAll(pk, ".", "_")+"="+v)
		}
		t.Key = simrt.TaskKey(n.Name, inPaths, pkv)
		lin.TaskKey = t.Key
		t.Lin = lin
		for _, in := range n.Ins {
			if it := t.Ins[in.Name]; it.Missing {
				t.Undefined = true
			}
		}
		for _, up := range ex.Tasks {
			_ = up
		}
		for _, o := range n.Outs {
			path := expandPattern(o.Pattern, t.Ins, t.Params)
			t.Outs[o.Name] = path
			if _, ok := ex.Pre[Abs(path)]; ok && !o.Stream {
				t.Skipped = true
			}
		}
		for oi, o := range n.Outs {
			path := t.Outs[o.Name]
			lin.OutFiles[o.Name] = path
			content := simrt.OpContent(n.Name, inData, pkv, oi, n.PadTo)
			missing := false
			if t.Skipped && !o.Stream {
				if b, ok := ex.Pre[Abs(path)]; ok {
					content = b
				} else {
					missing = true
				}
			}
			t.Content[o.Name] = content
			outs[o.Name].Items = append(outs[o.Name].Items, Item{Path: path, Content: content, Lin: lin, Stream: o.Stream, Missing: missing || t.Undefined})
			if o.Stream {
				ex.StreamPaths[Abs(path)] = true
			} else {
				ex.Owner[Abs(path)] = t
				ex.Lins[Abs(path)] = lin
				if !missing && !t.Undefined {
					ex.Files[Abs(path)] = content
				}
			}
		}
		if !t.Skipped && !t.Undefined {
			for _, x := range n.Extras {
				xp := Abs(expandPattern(x, t.Ins, t.Params))
				ex.Files[xp] = []byte("extra:" + t.Key + "\n")
				ex.Extras[xp] = true
			}
		}
		ex.Tasks = append(ex.Tasks, t)
		ex.ByKey[t.Key] = append(ex.ByKey[t.Key], t)
	}
	for name, st := range outs {
		ex.Streams[n.Name+"."+name] = st
	}
}

// relWork gives the path of an input as the task key uses it: relative to
// the working directory when below it, absolute otherwise.
func relWork(p string) string {
	return strings.TrimPrefix(Abs(p), "/work/")
}

// TaskKeys: keys of the tasks that must execute (not skipped, defined).
func (ex *Expect) TaskKeys() []string {
	var ks []string
	for _, t := range ex.Tasks {
		if t.Skipped || t.Undefined {
			continue
		}
		ks = append(ks, t.Key)
	}
	sort.Strings(ks)
	return ks
}

func newLin() *Lin {
	return &Lin{Params: map[string]string{}, Tags: map[string]string{}, OutFiles: map[string]string{}, Upstream: map[string]*Lin{}}
}

func (ex *Expect) evalComponent(ni int) {
	w := ex.WF
	n := &w.Nodes[ni]
	switch n.Kind {
	case KMapToTags:
		in := ex.inStream(n.Ins[0])
		out := &Stream{Ordered: in.Ordered}
		for _, it := range in.Items {
			// the tagger mutates the record the item carries (shared by pointer)
			// (the component re-writes the audit file of every item it passes on, tagged or not)
			ex.Tagged = true
			ex.TagKeys[n.TagKey] = true
			if ex.Retagged == nil {
				ex.Retagged = map[string]bool{}
			}
			ex.Retagged[Abs(it.Path)] = true
			if tagValueFor(n, it.Path) == "" {
				out.Items = append(out.Items, it)
				continue
			}
			if ex.Attached[Abs(it.Path)] == nil {
				ex.Attached[Abs(it.Path)] = map[string]string{}
			}
			ex.Attached[Abs(it.Path)][n.TagKey] = tagValueFor(n, it.Path)
			nt := copyTags(it.Tags)
			nt[n.TagKey] = tagValueFor(n, it.Path)
			it.Tags = nt
			ex.Tagged = true
			ex.TagKeys[n.TagKey] = true
			out.Items = append(out.Items, it)
		}
		ex.Streams[n.Name+".out"] = out
	case KStreamToSub:
		in := ex.inStream(n.Ins[0])
		carrier := Item{IsSub: true, Sub: append([]Item(nil), in.Items...), Lin: newLin(), Path: "<substream-carrier>"}
		ex.Streams[n.Name+".substream"] = &Stream{Ordered: in.Ordered, Items: []Item{carrier}}
	case KMultiSub:
		st := &Stream{Ordered: true}
		for _, in := range n.Ins {
			up := ex.inStream(in)
			st.Items = append(st.Items, Item{IsSub: true, Sub: append([]Item(nil), up.Items...), Lin: newLin(), Path: "<substream-carrier>"})
		}
		ex.Streams[n.Name+".out"] = st
	case KFileCombinator:
		// canonical product order: ports sorted by name, first port slowest
		var names []string
		ins := map[string]*Stream{}
		for _, in := range n.Ins {
			names = append(names, in.Name)
			ins[in.Name] = ex.inStream(in)
		}
		sort.Strings(names)
		total := 1
		for _, nm := range names {
			total *= len(ins[nm].Items)
		}
		for k, nm := range names {
			st := &Stream{Ordered: true}
			rep := 1
			for _, later := range names[k+1:] {
				rep *= len(ins[later].Items)
			}
			for i := 0; i < total; i++ {
				if len(ins[nm].Items) == 0 {
					break
				}
				st.Items = append(st.Items, ins[nm].Items[(i/rep)%len(ins[nm].Items)])
			}
			ex.Streams[n.Name+"."+nm] = st
		}
	case KParamCombinator:
		var names []string
		vals := map[string][]string{}
		for _, p := range n.Params {
			names = append(names, p.Name)
			if p.From != nil {
				if up := ex.Streams[w.Nodes[p.From.Node].Name+"."+p.From.Port]; up != nil {
					vals[p.Name] = up.Vals
				}
			} else {
				vals[p.Name] = p.Vals
			}
		}
		sort.Strings(names)
		total := 1
		for _, nm := range names {
			total *= len(vals[nm])
		}
		for k, nm := range names {
			st := &Stream{IsParam: true, Ordered: true}
			rep := 1
			for _, later := range names[k+1:] {
				rep *= len(vals[later])
			}
			for i := 0; i < total; i++ {
				if len(vals[nm]) == 0 {
					break
				}
				st.Vals = append(st.Vals, vals[nm][(i/rep)%len(vals[nm])])
			}
			ex.Streams[n.Name+"."+nm] = st
		}
	case KSelector:
		acc := map[string]bool{}
		for _, f := range n.Files {
			acc[f] = true
		}
		var ins []*Stream
		cnt := -1
		for _, in := range n.Ins {
			st := ex.inStream(in)
			ins = append(ins, st)
			if cnt < 0 || len(st.Items) < cnt {
				cnt = len(st.Items)
			}
		}
		outs := make([]*Stream, len(ins))
		for k := range outs {
			outs[k] = &Stream{Ordered: true}
		}
		for i := 0; i < cnt; i++ {
			ok := true
			for _, st := range ins {
				if !acc[st.Items[i].Path] {
					ok = false
				}
			}
			if ok {
				for k, st := range ins {
					outs[k].Items = append(outs[k].Items, st.Items[i])
				}
			}
		}
		for k, in := range n.Ins {
			ex.Streams[n.Name+"."+in.Name] = outs[k]
		}
	case KGlobber:
		st := &Stream{Ordered: true}
		for _, f := range n.Files { // the generator stores the expected matches, in order
			lin := ex.Lins[Abs(f)]
			if lin == nil {
				lin = newLin()
				lin.Source = true
				ex.Lins[Abs(f)] = lin
			}
			content := []byte(w.Sources[f])
			if b, ok := ex.Files[Abs(f)]; ok {
				content = b // a file produced by an upstream task (dependent globber)
			}
			st.Items = append(st.Items, Item{Path: f, Content: content, Lin: lin})
		}
		ex.Streams[n.Name+".out"] = st
	case KFileToParams, KCmdToParams:
		ex.Streams[n.Name+".line"] = &Stream{IsParam: true, Ordered: true, Vals: append([]string(nil), n.Vals...)}
		ex.Streams[n.Name+".param"] = ex.Streams[n.Name+".line"]
	case KConcat:
		in := ex.inStream(n.Ins[0])
		if len(n.Ins[0].From) == 1 && in.Ordered {
			// one ordered upstream: arrival order = stream order, the output is predictable
			var cat []byte
			for _, it := range in.Items {
				cat = append(cat, it.Content...)
				cat = append(cat, '\n')
			}
			lin := newLin()
			lin.Source = true // the Concatenator writes no audit record of its own
			ex.Files[Abs(n.OutPath)] = cat
			ex.Lins[Abs(n.OutPath)] = nil
			ex.Streams[n.Name+".out"] = &Stream{Ordered: true, Items: []Item{{Path: n.OutPath, Content: cat, Lin: lin}}}
		} else {
			ex.Streams[n.Name+".out"] = &Stream{}
		}
	case KSplitter:
		// checked by a dedicated oracle on recorded streams; no downstream reference
		ex.Streams[n.Name+".split_file"] = &Stream{}
	default:
		panic(fmt.Sprintf("reference: component kind %v not evaluated (%s)", n.Kind, n.Name))
	}
}
