package harness

import (
	"fmt"
	"strings"

	sp "github.com/scipipe/scipipe"
	"github.com/scipipe/scipipe/components"
)

// Bundled components: construction and wiring through their public API.

type compAdapter struct {
	out  func(string) *sp.OutPort
	outp func(string) *sp.OutParamPort
	in   func(string) *sp.InPort
	inp  func(string) *sp.InParamPort
}

func (c *compAdapter) OutPort(n string) *sp.OutPort           { return c.out(n) }
func (c *compAdapter) OutParamPort(n string) *sp.OutParamPort { return c.outp(n) }

// TagValue is the tag a MapToTags node attaches: derived from the path only.
// tagValueFor: the value node n (a MapToTags) attaches to the file at path.
func tagValueFor(n *Node, path string) string {
	// (FNV-1a with a final mix: neighbouring names must spread over the groups)
	h := uint32(2166136261)
	for _, c := range []byte(baseName(path)) {
		h = (h ^ uint32(c)) * 16777619
	}
	h ^= h >> 15
	h *= 2246822519
	h ^= h >> 13
	if n.TagSkip > 0 && (h>>8)%uint32(n.TagSkip) == 0 {
		return "" // this file gets no tag at all (the map function returns an empty map)
	}
	if n.TagGroups > 0 {
		return fmt.Sprintf("g%d", h%uint32(n.TagGroups))
	}
	return TagValue(path)
}

func TagValue(path string) string {
	b := baseName(path)
	b = strings.ReplaceAll(b, ".", "_")
	return "t_" + b
}

// MultiSub sends one sub-stream carrier IP per in-port, in port order, right
// away; each carrier's sub-stream is the corresponding in-port, so the
// sub-streams close whenever their upstreams finish.
type MultiSub struct {
	sp.BaseProcess
	ports []string
}

func newMultiSub(wf *sp.Workflow, name string, ports []string) *MultiSub {
	p := &MultiSub{BaseProcess: sp.NewBaseProcess(wf, name), ports: ports}
	for _, pt := range ports {
		p.InitInPort(p, pt)
	}
	p.InitOutPort(p, "out")
	wf.AddProc(p)
	return p
}

func (p *MultiSub) Run() {
	defer p.CloseAllOutPorts()
	for i, pt := range p.ports {
		ip, err := sp.NewFileIP(fmt.Sprintf("/tmp/carrier_%s_%d", p.Name(), i))
		if err != nil {
			p.Fail(err)
		}
		ip.SubStream = p.InPort(pt)
		p.OutPort("out").Send(ip)
	}
}

func buildComponent(wf *sp.Workflow, w *WF, n *Node, rt *Runtime) outPorter {
	switch n.Kind {
	case KMultiSub:
		var ports []string
		for _, in := range n.Ins {
			ports = append(ports, in.Name)
		}
		p := newMultiSub(wf, n.Name, ports)
		return &compAdapter{out: func(string) *sp.OutPort { return p.OutPort("out") }, in: p.InPort}
	case KMapToTags:
		key := n.TagKey
		nn := *n
		p := components.NewMapToTags(wf, n.Name, func(ip *sp.FileIP) map[string]string {
			v := tagValueFor(&nn, ip.Path())
			if v == "" {
				return map[string]string{}
			}
			return map[string]string{key: v}
		})
		return &compAdapter{out: func(string) *sp.OutPort { return p.Out() }, in: func(string) *sp.InPort { return p.In() }}
	case KStreamToSub:
		p := components.NewStreamToSubStream(wf, n.Name)
		return &compAdapter{out: func(string) *sp.OutPort { return p.OutSubStream() }, in: func(string) *sp.InPort { return p.In() }}
	case KFileCombinator:
		p := components.NewFileCombinator(wf, n.Name)
		return &compAdapter{out: p.Out, in: p.In}
	case KParamCombinator:
		p := components.NewParamCombinator(wf, n.Name)
		return &compAdapter{outp: p.OutParam, inp: p.InParam}
	case KSelector:
		acc := map[string]bool{}
		for _, f := range n.Files {
			acc[f] = true
		}
		p := components.NewIPSelectorSync(wf, n.Name, func(ip *sp.FileIP) bool { return acc[ip.Path()] })
		return &compAdapter{out: p.Out, in: p.In}
	case KSplitter:
		p := components.NewFileSplitter(wf, n.Name, n.SplitLines)
		return &compAdapter{out: func(string) *sp.OutPort { return p.OutSplitFile() }, in: func(string) *sp.InPort { return p.InFile() }}
	case KConcat:
		p := components.NewConcatenator(wf, n.Name, n.OutPath)
		if n.GroupBy != "" {
			p.GroupByTag = n.GroupBy
		}
		return &compAdapter{out: func(string) *sp.OutPort { return p.Out() }, in: func(string) *sp.InPort { return p.In() }}
	case KGlobber:
		if len(n.Ins) > 0 {
			p := components.NewFileGlobberDependent(wf, n.Name, n.Globs...)
			return &compAdapter{out: func(string) *sp.OutPort { return p.Out() }, in: func(string) *sp.InPort { return p.InDependency() }}
		}
		p := components.NewFileGlobber(wf, n.Name, n.Globs...)
		return &compAdapter{out: func(string) *sp.OutPort { return p.Out() }}
	case KFileToParams:
		p := components.NewFileToParamsReader(wf, n.Name, n.FilePath)
		return &compAdapter{outp: func(string) *sp.OutParamPort { return p.OutLine() }}
	case KCmdToParams:
		p := components.NewCommandToParams(wf, n.Name, n.FilePath)
		return &compAdapter{outp: func(string) *sp.OutParamPort { return p.OutParam() }}
	}
	panic("component kind not built: " + n.Name)
}

func connectComponent(wf *sp.Workflow, w *WF, i int, procs []outPorter, rt *Runtime) {
	n := &w.Nodes[i]
	switch n.Kind {
	case KFileSrc, KParamSrc, KFileToParams, KCmdToParams:
		return
	case KGlobber:
		if len(n.Ins) == 0 {
			return
		}
	}
	ca := procs[i].(*compAdapter)
	for _, in := range n.Ins {
		if in.Unconnected {
			if n.Kind != KGlobber { // (a dependent globber has its in_dep port by construction)
				ca.in(in.Name) // the port exists but nothing is connected to it
			}
			continue
		}
		for _, e := range in.From {
			up := procs[e.Node].OutPort(e.Port)
			if w.Nodes[e.Node].Rec || n.Rec {
				r := newRecorder(wf, "rec_"+n.Name+"_"+in.Name+"_"+w.Nodes[e.Node].Name+"_"+e.Port, recKey(w.Nodes[e.Node].Name, e.Port, n.Name, in.Name), rt)
				rt.connect(r.InPort("in"), up)
				rt.connect(ca.in(in.Name), r.OutPort("out"))
			} else {
				rt.connect(ca.in(in.Name), up)
			}
		}
	}
	for _, ps := range n.Params {
		if ps.Unconnected {
			ca.inp(ps.Name)
			continue
		}
		if ps.From != nil {
			rt.connectP(ca.inp(ps.Name), procs[ps.From.Node].OutParamPort(ps.From.Port))
		} else {
			ca.inp(ps.Name).FromStr(ps.Vals...)
		}
	}
	// make sure declared out-ports exist (selector creates them on demand)
	for _, o := range n.Outs {
		if ca.out != nil {
			ca.out(o.Name)
		}
	}
}
