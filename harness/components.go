package harness

import (
	sp "github.com/scipipe/scipipe"
)

func buildComponent(wf *sp.Workflow, w *WF, n *Node, rt *Runtime) outPorter {
	panic("component kind not built yet: " + n.Name)
}

func connectComponent(wf *sp.Workflow, w *WF, i int, procs []outPorter, rt *Runtime) {
	n := &w.Nodes[i]
	switch n.Kind {
	case KFileSrc, KParamSrc:
		return
	}
	panic("component kind not connected yet: " + n.Name)
}
