package harness

import (
	"fmt"
	"sort"

	"verif/simrt"
)

// Workflow generator. Every draw comes from the "gen" stream of the tape; the
// value 0 always selects the simplest alternative, so tape shrinking shrinks
// the workflow. Only workflows whose result is timing-independent by
// specification are generated (DESIGN.md 3.4).

type Profile struct {
	MaxProcs      int
	MaxItems      int // stream length drawn from 0..MaxItems (index 0 -> 1 item)
	LongStreams   []int
	Bufsizes      []int // index 0 first
	MaxSlots      int
	Params        bool
	MultiOut      bool
	FanIn         bool
	FanOut        bool
	NoPort        bool
	Sinkless      bool
	Custom        bool
	CustomIdiom   bool
	Subdirs       bool
	ParentAbs     bool
	NoOtherDevice bool // with ParentAbs: no outputs on the second file system
	Extras        bool
	Cores         bool
	Recorders     bool
	ParamSrc      bool
	TwoSources    bool
	RunTo         bool
	Zip           bool
	PadTo         bool
	EmptyOuts     bool
	Taggers       bool
	Joins         bool
}

type gen struct {
	t *simrt.Tape
	p *Profile
	w *WF
	// available out-port streams
	avail   []availStream
	origins int
	same    bool // two sources share base names
}

type availStream struct {
	e       Edge
	n       int
	ordered bool
	param   bool
	origin  int // streams with the same origin carry the same items (taggers)
	// names of in-port placeholders needed for unique paths are handled by
	// always including every input in the pattern
}

func (g *gen) newOrigin() int { g.origins++; return g.origins }

func (g *gen) n(k int) int { return g.t.Choose(simrt.StGen, k, 0) }
func (g *gen) flag(enabled bool) bool {
	if !enabled {
		return false
	}
	return g.n(2) == 1
}

// Swarm: each run enables a random subset of the profile's features.
func (g *gen) swarm(p Profile) *Profile {
	q := p
	q.Params = g.flag(p.Params)
	q.MultiOut = g.flag(p.MultiOut)
	q.FanIn = g.flag(p.FanIn)
	q.FanOut = g.flag(p.FanOut)
	q.NoPort = g.flag(p.NoPort)
	q.Sinkless = g.flag(p.Sinkless)
	q.Custom = g.flag(p.Custom)
	q.Subdirs = g.flag(p.Subdirs)
	q.ParentAbs = g.flag(p.ParentAbs)
	q.NoOtherDevice = p.NoOtherDevice
	q.Extras = g.flag(p.Extras)
	q.Cores = g.flag(p.Cores)
	q.Recorders = g.flag(p.Recorders)
	q.ParamSrc = g.flag(p.ParamSrc)
	q.TwoSources = g.flag(p.TwoSources)
	q.Zip = g.flag(p.Zip)
	q.PadTo = g.flag(p.PadTo)
	q.EmptyOuts = g.flag(p.EmptyOuts)
	q.Taggers = g.flag(p.Taggers)
	q.Joins = g.flag(p.Joins)
	return &q
}

func (g *gen) dirPrefix() string {
	opts := []string{""}
	if g.p.Subdirs {
		opts = append(opts, "out/", "d1/d2/")
	}
	if g.p.ParentAbs && !g.same {
		opts = append(opts, "../ext/", "/abs/")
		if !g.p.NoOtherDevice {
			opts = append(opts, "/mnt/") // another file system: finalizing fails with EXDEV
		}
	}
	return opts[g.n(len(opts))]
}

// AddTagArgs lets some commands use {t:port.key} placeholders: for a process
// every task of which receives, on one of its (not joined) in-ports, an item
// that carries a tag with that key - attached by a tagging component on the
// route of that port, or inherited by the task that produced the item - the
// value is passed to the command and enters the result.
func AddTagArgs(t *simrt.Tape, w *WF) {
	ex := Eval(w)
	for i := range w.Nodes {
		n := &w.Nodes[i]
		if n.Kind != KProc || n.Custom != 0 || len(n.Ins) == 0 {
			continue
		}
		var common map[string]bool
		cnt := 0
		for _, tk := range ex.Tasks {
			if tk.Node != i {
				continue
			}
			cnt++
			cur := map[string]bool{}
			for _, in := range n.Ins {
				if in.Join {
					continue
				}
				it := tk.Ins[in.Name]
				for k, v := range it.Tags {
					if v != "" {
						cur[in.Name+"."+k] = true
					}
				}
				if it.Lin != nil {
					for k, v := range it.Lin.Tags {
						if v != "" {
							cur[in.Name+"."+k] = true
						}
					}
				}
			}
			if common == nil {
				common = cur
			} else {
				for k := range common {
					if !cur[k] {
						delete(common, k)
					}
				}
			}
		}
		if cnt == 0 || len(common) == 0 || t.Choose(simrt.StGen, 2, 0) != 1 {
			continue
		}
		var keys []string
		for k := range common {
			keys = append(keys, k)
		}
		sort.Strings(keys)
		n.TagArgs = []string{keys[t.Choose(simrt.StGen, len(keys), 0)]}
	}
}

func Generate(t *simrt.Tape, prof Profile) *WF {
	g := &gen{t: t}
	g.p = g.swarm(prof)
	w := &WF{Name: "wf", Sources: map[string]string{}}
	g.w = w
	w.Dirs = []string{"/ext", "/abs", "/mnt"}
	// configuration
	w.MaxTasks = 1 + g.n(max(1, prof.MaxSlots))
	if len(prof.Bufsizes) > 0 {
		w.Bufsize = prof.Bufsizes[g.n(len(prof.Bufsizes))]
	}
	// stream length
	L := 1
	lens := []int{1}
	for i := 2; i <= prof.MaxItems; i++ {
		lens = append(lens, i)
	}
	lens = append(lens, 0)
	lens = append(lens, prof.LongStreams...)
	L = lens[g.n(len(lens))]
	// sources
	nsrc := 1
	if g.p.TwoSources {
		nsrc = 2
	}
	for s := 0; s < nsrc; s++ {
		node := Node{Name: fmt.Sprintf("src%d", s), Kind: KFileSrc}
		dir := ""
		if g.p.Subdirs && g.n(2) == 1 {
			dir = "data/"
		}
		// second source with the SAME base names in another directory: tasks
		// that differ only in the directory of an input must still be told apart
		sameNames := s == 1 && g.p.Subdirs && g.n(3) == 1
		for i := 0; i < L; i++ {
			p := fmt.Sprintf("%ss%d_%d.txt", dir, s, i)
			if sameNames {
				p = fmt.Sprintf("alt/%s", baseName(w.Nodes[0].Files[i]))
				g.same = true
				g.p.Extras = false // extra-file names are derived from base names: they would clash
			}
			node.Files = append(node.Files, p)
			w.Sources[p] = fmt.Sprintf("source %d %d\n", s, i)
		}
		w.Nodes = append(w.Nodes, node)
		g.avail = append(g.avail, availStream{e: Edge{len(w.Nodes) - 1, "out"}, n: L, ordered: true, origin: g.newOrigin()})
	}
	if g.p.ParamSrc {
		node := Node{Name: "psrc", Kind: KParamSrc}
		for i := 0; i < L; i++ {
			node.Vals = append(node.Vals, fmt.Sprintf("q%d", i))
		}
		w.Nodes = append(w.Nodes, node)
		g.avail = append(g.avail, availStream{e: Edge{len(w.Nodes) - 1, "out"}, n: L, ordered: true, param: true, origin: g.newOrigin()})
	}
	nprocs := 1 + g.n(max(1, prof.MaxProcs))
	if L > 20 && nprocs > 4 {
		// every audit file embeds the records of all ancestors as a TREE: with deep
		// graphs its size grows exponentially with the depth, and a long stream
		// multiplies that by its length (gigabytes per case): long streams go with
		// at most four processes
		nprocs = 4
	}
	sinkless := false
	for j := 0; j < nprocs; j++ {
		g.addProc(j, &sinkless)
	}
	return w
}

func (g *gen) fileStreams() []int {
	var r []int
	for i, a := range g.avail {
		if !a.param {
			r = append(r, i)
		}
	}
	return r
}

func (g *gen) addProc(j int, sinkless *bool) {
	w := g.w
	p := g.p
	name := fmt.Sprintf("p%d", j)
	node := Node{Name: name, Kind: KProc, Cores: 1}
	kinds := []string{"one"}
	if p.Zip {
		kinds = append(kinds, "zip")
	}
	if p.Params {
		kinds = append(kinds, "inparam", "paramonly")
	}
	if p.FanIn {
		kinds = append(kinds, "fanin")
	}
	if p.NoPort {
		kinds = append(kinds, "noport")
	}
	if p.Joins {
		kinds = append(kinds, "join")
	}
	kind := kinds[g.n(len(kinds))]
	fs := g.fileStreams()
	pick := func() availStream {
		// prefer the most recent streams (deeper graphs) but allow any
		k := g.n(len(fs))
		a := g.avail[fs[len(fs)-1-k]]
		if p.Taggers && g.n(3) == 1 {
			// route the stream through a tagging component
			tn := Node{Name: fmt.Sprintf("tag%d", len(w.Nodes)), Kind: KMapToTags, TagKey: fmt.Sprintf("k%d", len(w.Nodes)),
				// (for some files the map function may return no tag at all)
				TagSkip: []int{0, 0, 2, 3}[g.n(4)],
				Ins: []InSpec{{Name: "in", From: []Edge{a.e}}}, Outs: []OutSpec{{Name: "out"}}}
			w.Nodes = append(w.Nodes, tn)
			a = availStream{e: Edge{len(w.Nodes) - 1, "out"}, n: a.n, ordered: a.ordered, origin: a.origin}
			g.avail = append(g.avail, a)
		}
		return a
	}
	n := 1
	ordered := true
	var patParts []string
	switch kind {
	case "one", "inparam":
		a := pick()
		node.Ins = []InSpec{{Name: "a", From: []Edge{a.e}}}
		n, ordered = a.n, a.ordered
		patParts = append(patParts, "{i:a}")
	case "zip":
		a := pick()
		var cands []availStream
		for _, i := range fs {
			c := g.avail[i]
			if c.n == a.n && c.ordered {
				cands = append(cands, c)
			}
		}
		if !a.ordered || len(cands) == 0 {
			node.Ins = []InSpec{{Name: "a", From: []Edge{a.e}}}
			n, ordered = a.n, a.ordered
			patParts = append(patParts, "{i:a}")
			break
		}
		b := cands[g.n(len(cands))]
		if !p.FanOut && b.e == a.e && len(cands) > 1 {
			b = cands[(g.n(len(cands)-1)+1)%len(cands)]
		}
		node.Ins = []InSpec{{Name: "a", From: []Edge{a.e}}, {Name: "b", From: []Edge{b.e}}}
		n, ordered = a.n, true
		// aligned streams: the first input identifies the pair (keeps names short)
		patParts = append(patParts, "{i:a}")
	case "fanin":
		a := pick()
		from := []Edge{a.e}
		origins := []int{a.origin}
		n, ordered = a.n, a.ordered
		extra := 1 + g.n(2)
		for x := 0; x < extra; x++ {
			b := pick()
			dup := false
			for _, e := range from {
				if e == b.e {
					dup = true
				}
			}
			for _, o := range origins {
				if o == b.origin {
					dup = true // same items via another route: would be duplicates in the merged port
				}
			}
			origins = append(origins, b.origin)
			if dup {
				continue
			}
			from = append(from, b.e)
			n += b.n
			ordered = false
		}
		node.Ins = []InSpec{{Name: "a", From: from}}
		patParts = append(patParts, "{i:a}")
	case "join":
		a := pick()
		if !a.ordered {
			node.Ins = []InSpec{{Name: "a", From: []Edge{a.e}}}
			n, ordered = a.n, a.ordered
			patParts = append(patParts, "{i:a}")
			break
		}
		sn := Node{Name: fmt.Sprintf("sub%d", len(w.Nodes)), Kind: KStreamToSub,
			Ins: []InSpec{{Name: "in", From: []Edge{a.e}}}, Outs: []OutSpec{{Name: "substream"}}}
		w.Nodes = append(w.Nodes, sn)
		seps := []string{" ", ",", ":"}
		node.Ins = []InSpec{{Name: "a", From: []Edge{{len(w.Nodes) - 1, "substream"}}, Join: true, Sep: seps[g.n(len(seps))]}}
		n, ordered = 1, true
		patParts = append(patParts, "joined")
	case "paramonly":
		n = 1 + g.n(3)
	case "noport":
		n = 1
	}
	if kind == "inparam" || kind == "paramonly" {
		if !ordered {
			// a parameter stream cannot be zipped with an unordered stream
			kind = "one"
		} else {
			np := 1
			if kind == "paramonly" {
				np += g.n(2)
			}
			for k := 0; k < np; k++ {
				ps := ParamSpec{Name: fmt.Sprintf("x%d", k)}
				var fromSrc *availStream
				for i := range g.avail {
					if g.avail[i].param && g.avail[i].n == n {
						fromSrc = &g.avail[i]
					}
				}
				if fromSrc != nil && g.n(2) == 1 {
					e := fromSrc.e
					ps.From = &e
				} else {
					for i := 0; i < n; i++ {
						ps.Vals = append(ps.Vals, fmt.Sprintf("v%d%c", k, 'a'+i%26)+fmt.Sprint(i/26))
					}
				}
				node.Params = append(node.Params, ps)
				patParts = append(patParts, fmt.Sprintf("{p:%s}", ps.Name))
			}
		}
	}
	// outputs
	nouts := 1
	if p.MultiOut && g.n(2) == 1 {
		nouts = 2
	}
	if p.Sinkless && !*sinkless && len(node.Ins) > 0 && g.n(4) == 1 {
		nouts = 0
		*sinkless = true
	}
	prefix := g.dirPrefix()
	for o := 0; o < nouts; o++ {
		oname := fmt.Sprintf("o%d", o)
		pat := ""
		for i, pp := range patParts {
			if i == 0 {
				if prefix != "" && pp == "{i:a}" && !g.same {
					pp = "{i:a|basename}"
				}
				pat = prefix + pp
			} else {
				pat += "." + pp
			}
		}
		if pat == "" {
			pat = prefix + "const"
		}
		pat += "." + name + "." + oname
		node.Outs = append(node.Outs, OutSpec{Name: oname, Pattern: pat})
	}
	if p.Cores && g.n(2) == 1 {
		node.Cores = 1 + g.n(w.MaxTasks)
	}
	if p.Custom && nouts > 0 && !(len(node.Ins) > 0 && node.Ins[0].Join) && g.n(3) == 1 {
		node.Custom = 1
		if p.CustomIdiom && g.n(2) == 1 {
			node.Custom = 2
		}
	}
	if p.Extras && node.Custom == 0 && !(len(node.Ins) > 0 && node.Ins[0].Join) && g.n(3) == 1 {
		node.Extras = []string{fmt.Sprintf("extra_%s_%s.log", name, "{i:a|basename}")}
		if g.n(2) == 1 {
			node.Extras = append(node.Extras, fmt.Sprintf("xdir/more_%s_%s.dat", name, "{i:a|basename}"))
		}
		if len(node.Ins) == 0 {
			node.Extras = nil
		}
	}
	if p.PadTo && g.n(3) == 1 {
		node.PadTo = 100 + 50*g.n(4)
	}
	if p.EmptyOuts && g.n(6) == 1 {
		node.PadTo = -1 // every output of this process is a (complete) empty file
	}
	if p.Recorders && g.n(2) == 1 {
		node.Rec = true
	}
	if g.n(8) == 1 {
		node.NoSpawn = true
	}
	w.Nodes = append(w.Nodes, node)
	idx := len(w.Nodes) - 1
	for _, o := range node.Outs {
		g.avail = append(g.avail, availStream{e: Edge{idx, o.Name}, n: n, ordered: ordered, origin: g.newOrigin()})
	}
}
