package harness

import (
	"fmt"
	"sort"
	"strings"

	"verif/simrt"
)

type Verdict struct {
	Status string // ok | violation | inconclusive
	Clause string
	Detail string
	Sig    string
}

func OK() Verdict { return Verdict{Status: "ok"} }
func Viol(clause, sig, format string, a ...any) Verdict {
	return Verdict{Status: "violation", Clause: clause, Sig: sig, Detail: fmt.Sprintf(format, a...)}
}

// Skipped: the precondition of this check's oracle failed for a reason that
// is another property's business (e.g. the workflow did not complete although
// this check is about audit records). The check stays silent: it only speaks
// to its own property.
func Skipped(v Verdict) Verdict {
	return Verdict{Status: "skipped", Clause: v.Clause, Detail: v.Detail}
}

// foreign: a violation found by a shared oracle that is not this check's
// business becomes "skipped"; other statuses pass through.
func foreign(v Verdict) Verdict {
	if v.Status == "violation" {
		return Skipped(v)
	}
	return v
}

func Inconclusive(format string, a ...any) Verdict {
	return Verdict{Status: "inconclusive", Detail: fmt.Sprintf(format, a...)}
}

type Case struct {
	Prop  string
	Tier  string
	Tape  *simrt.Tape
	Trace bool
	// filled in by the check
	Incs        int
	Steps       int
	SimNS       int64
	Hash        uint64
	Tasks       int
	Features    map[string]bool
	Faults      map[string]int
	Probes      map[string]int
	Sample      string
	TraceLog    []string
	CrashStates int
	Notes       []string
	// KnownID tells whether a verdict matches an entry of the committed
	// known-findings file (so that an enumeration can go on past it)
	KnownID func(v Verdict) string
	Masked  map[string]int
}

// Known reports (and counts) a violation that is a listed known finding.
func (c *Case) Known(v Verdict) bool {
	if c.KnownID == nil || v.Status != "violation" {
		return false
	}
	if id := c.KnownID(v); id != "" {
		if c.Masked == nil {
			c.Masked = map[string]int{}
		}
		c.Masked[id]++
		return true
	}
	return false
}

// KnownMatcher is installed once by the worker (from the committed
// known-findings file); every case, also in shrinking and replay, uses it.
var KnownMatcher func(v Verdict) string

func NewCase(prop, tier string, t *simrt.Tape) *Case {
	incEpoch = 0
	return &Case{KnownID: KnownMatcher, Prop: prop, Tier: tier, Tape: t, Features: map[string]bool{}, Faults: map[string]int{}, Probes: map[string]int{}, Hash: 14695981039346656037}
}

// Absorb accounts one finished incarnation.
func (c *Case) Absorb(inc *Inc) {
	s := inc.Sim
	c.Incs++
	c.Steps += s.Steps
	c.SimNS += s.SimTimeNS()
	c.Hash = (c.Hash ^ s.Hash) * 1099511628211
	for k, v := range s.Faults {
		c.Faults[k] += v
	}
	for k, v := range s.Probes {
		c.Probes[k] += v
	}
	n := 0
	for _, e := range s.Shell.Trace {
		if e.Kind == "exit" && e.Code == 0 {
			n++
		}
	}
	if n > c.Tasks {
		c.Tasks = n
	}
	if c.Trace {
		c.TraceLog = append(c.TraceLog, fmt.Sprintf("--- incarnation %d: end=%s exit=%d steps=%d", c.Incs, s.End, s.ExitCode, s.Steps))
		c.TraceLog = append(c.TraceLog, s.TraceLog...)
		if len(s.Stderr) > 0 {
			c.TraceLog = append(c.TraceLog, "stderr: "+strings.TrimSpace(string(s.Stderr)))
		}
	}
}

func (c *Case) Fault(name string) { c.Faults[name]++ }
func (c *Case) Probe(name string) { c.Probes[name]++ }

type Check struct {
	ID    string
	Level string
	Rule  string
	Run   func(c *Case) Verdict
}

var Checks = map[string]*Check{}

func Register(ch *Check) { Checks[ch.ID] = ch }

// --- shared oracle helpers -------------------------------------------------------------

func endDesc(inc *Inc) string {
	s := inc.Sim
	d := fmt.Sprintf("end=%s exit=%d steps=%d", s.End, s.ExitCode, s.Steps)
	if s.End == simrt.EndDeadlock {
		d += " waiting: " + s.DeadlockString()
	}
	if s.End == simrt.EndPanic {
		d += " panic: " + s.PanicVal
	}
	if len(s.Stderr) > 0 {
		e := strings.TrimSpace(string(s.Stderr))
		if len(e) > 400 {
			e = e[:400] + "..."
		}
		d += " stderr: " + e
	}
	return d
}

// inconclusiveEnd maps harness-level endings to an inconclusive verdict.
func inconclusiveEnd(inc *Inc) (Verdict, bool) {
	switch inc.Sim.End {
	case simrt.EndStepCap:
		return Inconclusive("step cap reached"), true
	case simrt.EndHarness:
		return Inconclusive("stub limitation: %s", inc.Sim.HarnessErr), true
	}
	return Verdict{}, false
}

// completedOK: the incarnation ran to completion the way a successful
// workflow program does.
func completedOK(inc *Inc) bool {
	return inc.Sim.End == simrt.EndMainReturned && inc.RT.RunReturned
}

func multisetDiff(got, want []string) (missing, extra []string) {
	m := map[string]int{}
	for _, w := range want {
		m[w]++
	}
	for _, g := range got {
		m[g]--
	}
	var keys []string
	for k := range m {
		keys = append(keys, k)
	}
	sort.Strings(keys)
	for _, k := range keys {
		for i := 0; i < m[k]; i++ {
			missing = append(missing, k)
		}
		for i := 0; i < -m[k]; i++ {
			extra = append(extra, k)
		}
	}
	return
}

// checkFinalFiles compares the regular files of a tree with the reference:
// every expected output present with the expected bytes, nothing unexpected.
// Allowed besides expected outputs: sources, *.audit.json next to an expected
// output or source, log/, and (if allowTmp) anything below _scipipe_tmp*.
func checkFinalFiles(root *simrt.Inode, ex *Expect, allowTmp bool) (string, string) {
	files := WorkFiles(root)
	var paths []string
	for p := range ex.Files {
		paths = append(paths, p)
	}
	sort.Strings(paths)
	for _, p := range paths {
		e, ok := files[p]
		if !ok || e.Kind != simrt.KFile {
			return "missing-output", fmt.Sprintf("expected output %s is missing", p)
		}
		if string(e.Data) != string(ex.Files[p]) {
			return "wrong-content", fmt.Sprintf("output %s has content %q, reference says %q", p, clip(e.Data), clip(ex.Files[p]))
		}
	}
	var all []string
	for p := range files {
		all = append(all, p)
	}
	sort.Strings(all)
	for _, p := range all {
		e := files[p]
		if e.Kind == simrt.KFifo {
			if !allowTmp {
				return "fifo-left", fmt.Sprintf("FIFO %s left behind", p)
			}
			continue
		}
		if e.Kind == simrt.KDir {
			if isTmpName(baseName(p)) && !allowTmp {
				return "tmp-left", fmt.Sprintf("temp directory %s left behind", p)
			}
			continue
		}
		if allowTmp && underTmp(p) {
			continue
		}
		if _, ok := ex.Files[p]; ok {
			continue
		}
		if _, ok := ex.WF.Sources[strings.TrimPrefix(p, "/work/")]; ok {
			continue
		}
		if strings.HasSuffix(p, ".audit.json") {
			b := strings.TrimSuffix(p, ".audit.json")
			if _, ok := ex.Files[b]; ok {
				continue
			}
			if ex.StreamPaths[b] {
				continue
			}
			if _, ok := ex.WF.Sources[strings.TrimPrefix(b, "/work/")]; ok && ex.Tagged {
				continue // a tagging component writes the record of the file it tags
			}
		}
		if strings.HasSuffix(p, "/.keep") {
			continue
		}
		return "unexpected-file", fmt.Sprintf("unexpected file %s (%q)", p, clip(e.Data))
	}
	return "", ""
}

func clip(b []byte) string {
	if len(b) > 80 {
		return string(b[:80]) + "..."
	}
	return string(b)
}

func strategyOf(t *simrt.Tape) simrt.Strategy {
	return simrt.Strategy(t.Choose(simrt.StGen, int(simrt.NumStrategies), 0))
}
