package harness

import (
	"strconv"
	"fmt"
	"strings"

	sp "github.com/scipipe/scipipe"
	"github.com/scipipe/scipipe/components"

	"verif/simrt"
)

// The "workflow program": turns the IR into calls of scipipe's public API.
// It runs as the main simulated goroutine.

type outPorter interface {
	OutPort(string) *sp.OutPort
	OutParamPort(string) *sp.OutParamPort
}

type Recorder struct {
	sp.BaseProcess
	key string
	rt  *Runtime
}

func newRecorder(wf *sp.Workflow, name, key string, rt *Runtime) *Recorder {
	r := &Recorder{BaseProcess: sp.NewBaseProcess(wf, name), key: key, rt: rt}
	r.InitInPort(r, "in")
	r.InitOutPort(r, "out")
	wf.AddProc(r)
	return r
}

func (r *Recorder) Run() {
	defer r.CloseAllOutPorts()
	ch := r.InPort("in").Chan
	for {
		ip, ok := simrt.Recv2(ch)
		if !ok {
			break
		}
		r.rt.Recorded[r.key] = append(r.rt.Recorded[r.key], ip.Path())
		r.OutPort("out").Send(ip)
	}
}

// Runtime collects what the workflow program itself observes.
type Runtime struct {
	Recorded      map[string][]string // "producer.port->consumer.port" -> paths in arrival order
	RunReturned   bool
	ReturnStep    int
	ReturnSnap    *simrt.Inode
	ReturnRunning []string // keys of commands still in flight when Run returned
	WF            *sp.Workflow
	WF2           *sp.Workflow // the second workflow (nodes of stage 1), if any
	PreRound      []*simrt.Inode // snapshot right before each further in-process round
	api           int            // tape-chosen variant of equivalent API calls (see Build)
	nconn         int
}

// connect / connectP: a connection made from the receiving or from the sending
// side, as the api variant of this build says.
func (rt *Runtime) connect(in *sp.InPort, up *sp.OutPort) {
	rt.nconn++
	if rt.api == 1 || (rt.api == 2 && rt.nconn%2 == 0) {
		up.To(in)
	} else {
		in.From(up)
	}
}

func (rt *Runtime) connectP(in *sp.InParamPort, up *sp.OutParamPort) {
	if rt.api == 1 || rt.api == 3 {
		up.To(in)
	} else {
		in.From(up)
	}
}

func commandPattern(n *Node) string {
	var b strings.Builder
	if n.Prefix != "" {
		b.WriteString(n.Prefix + " ")
	}
	b.WriteString("op " + n.Name)
	for _, in := range n.Ins {
		if in.Join {
			if in.Sep == " " {
				fmt.Fprintf(&b, " -j {i:%s|join: }", in.Name)
			} else {
				fmt.Fprintf(&b, " -sep %s -j {i:%s|join:%s}", in.Sep, in.Name, in.Sep)
			}
		} else {
			if n.GlueIn {
				fmt.Fprintf(&b, " -i={i:%s}", in.Name)
			} else {
				fmt.Fprintf(&b, " -i {i:%s}", in.Name)
			}
		}
	}
	if n.JoinMod != "" {
		for _, in := range n.Ins {
			if in.Join {
				fmt.Fprintf(&b, " -note {i:%s|join:%s|%s}", in.Name, in.Sep, n.JoinMod)
				break
			}
		}
	}
	for _, p := range n.Params {
		if n.HiddenParams {
			break
		}
		fmt.Fprintf(&b, " -p %s={p:%s}", p.Name, p.Name)
	}
	for _, k := range n.TagArgs {
		fmt.Fprintf(&b, " -p tg_%s={t:%s}", strings.ReplaceAll(k, ".", "_"), k)
	}
	for _, o := range n.Outs {
		if o.Stream {
			fmt.Fprintf(&b, " -o {os:%s}", o.Name)
		} else if n.OutNotInCmd {
			// (the pattern is built from {i:..|basename} / {p:..} only, so the same
			// text names the file inside the task's working directory)
			fmt.Fprintf(&b, " -o %s", o.Pattern)
		} else {
			fmt.Fprintf(&b, " -o {o:%s}", o.Name)
		}
	}
	for _, x := range n.Extras {
		fmt.Fprintf(&b, " -x %s", x)
	}
	if n.PadTo != 0 {
		fmt.Fprintf(&b, " -n %d", n.PadTo)
	}
	if n.Barrier > 0 {
		fmt.Fprintf(&b, " -barrier %d", n.Barrier)
	}
	if n.BGroup != "" {
		fmt.Fprintf(&b, " -bgroup {p:%s}", n.BGroup)
	}
	if n.BgTail {
		b.WriteString(" -bg")
	}
	if n.BgLate {
		b.WriteString(" -bglate")
	}
	if n.Head > 0 {
		fmt.Fprintf(&b, " -head %d", n.Head)
	}
	if n.Say > 0 {
		fmt.Fprintf(&b, " -say %d", n.Say)
	}
	if n.Note != "" {
		b.WriteString(" -note " + n.Note)
	}
	if n.LongArg > 0 {
		b.WriteString(" -note " + strings.Repeat("w", n.LongArg))
	}
	if n.TouchIn {
		b.WriteString(" -touchin")
	}
	if n.Suffix != "" {
		b.WriteString(" " + n.Suffix)
	}
	return b.String()
}

// customFunc is the Go function of a CustomExecute node: same content
// function as `op`, traced like a command.
func customFunc(n *Node) func(t *sp.Task) {
	node := *n
	if node.Custom == 3 {
		// the Go function lets a tool do the work, through the library's helper
		// ExecCmd, writing into the task's temp directory (the tool's start / exit
		// are the trace events; failures are injected into the tool)
		return func(t *sp.Task) {
			var b strings.Builder
			b.WriteString("op " + node.Name)
			for _, in := range node.Ins {
				b.WriteString(" -i " + t.InIP(in.Name).Path())
			}
			for _, p := range node.Params {
				b.WriteString(" -p " + p.Name + "=" + t.Param(p.Name))
			}
			for _, os := range node.Outs {
				b.WriteString(" -o " + t.TempDir() + "/" + t.OutIP(os.Name).TempPath())
			}
			if node.PadTo != 0 {
				fmt.Fprintf(&b, " -n %d", node.PadTo)
			}
			sp.ExecCmd(b.String())
		}
	}
	return func(t *sp.Task) {
		s := simrt.S
		var inPaths []string
		var inData [][]byte
		for _, in := range node.Ins {
			inPaths = append(inPaths, relWork(t.InIP(in.Name).Path()))
		}
		var pkv []string
		for _, p := range node.Params {
			pkv = append(pkv, p.Name+"="+t.Param(p.Name))
		}
		o := s.Shell.CustomStart(node.Name, inPaths, pkv)
		s.Shell.CustomBarrier(o, node.Barrier)
		for _, in := range node.Ins {
			ip := t.InIP(in.Name)
			if _, err := s.FS.GoStat(ip.Path()); err != nil {
				// like a command that cannot open its input: the function fails
				s.Shell.CustomEnd(o, 1)
				sp.Fail("Go function of task " + o.Key + " cannot open its input " + ip.Path())
			}
			if s.Tape.Choose(simrt.StAPI, 2, 0) == 1 {
				// (the same through a file handle; the size as the library reports it)
				fh := ip.Open()
				b := make([]byte, ip.Size())
				if n, _ := fh.Read(b); n != len(b) {
					sp.Fail(fmt.Sprintf("short read of %s: %d of %d bytes", ip.Path(), n, len(b)))
				}
				fh.Close()
				inData = append(inData, b)
			} else {
				inData = append(inData, ip.Read())
			}
		}
		s.SleepNS(o.DurNS)
		if node.Nest > 0 && len(inPaths) > 0 {
			miniWorkflow("nested_"+node.Name, node.Nest, t.InIP(node.Ins[0].Name).Path(), "ninner").Run()
		}
		if o.Fail == simrt.FailExitBefore {
			s.Fault(o.Fail.String())
			s.Shell.CustomEnd(o, 1)
			sp.Fail("injected failure of the Go function of task " + o.Key + " before writing")
		}
		for oi, os := range node.Outs {
			data := simrt.OpContent(node.Name, inData, pkv, oi, node.PadTo)
			if o.Fail == simrt.FailOmit && oi == o.FailArg%len(node.Outs) {
				s.Fault(o.Fail.String())
				continue // the function "forgets" one declared output
			}
			if (o.Fail == simrt.FailExitPartial || o.Fail == simrt.FailSignal) && oi == o.FailArg%len(node.Outs) {
				data = data[:len(data)/2]
			}
			oip := t.OutIP(os.Name)
			if node.Custom == 2 {
				oip.Write(data) // the documented idiom
			} else {
				path := t.TempDir() + "/" + oip.TempPath()
				if err := s.FS.GoWriteFile(path, data); err != nil {
					sp.Fail("custom task could not write " + path + ": " + err.Error())
				}
			}
			if o.Fail == simrt.FailExitPartial && oi == o.FailArg%len(node.Outs) {
				s.Fault(o.Fail.String())
				s.Shell.CustomEnd(o, 1)
				sp.Fail("injected failure of the Go function of task " + o.Key + " after a partial write")
			}
			if o.Fail == simrt.FailSignal && oi == o.FailArg%len(node.Outs) {
				s.Fault("gofunc-panic")
				s.Shell.CustomEnd(o, 2)
				panic("injected panic in the Go function of task " + o.Key + " after a partial write")
			}
		}
		if o.Fail == simrt.FailExitAfter {
			s.Fault(o.Fail.String())
			s.Shell.CustomEnd(o, 1)
			sp.Fail("injected failure of the Go function of task " + o.Key + " after writing all outputs")
		}
		s.Shell.CustomEnd(o, 0)
	}
}

func recKey(prod, port, cons, cport string) string {
	return prod + "." + port + "->" + cons + "." + cport
}

// feedParams: FromStr, or - when every value is the canonical text of an int /
// a float64 - the typed variants of the API.
func feedParams(port *sp.InParamPort, vals []string) {
	var ints []int
	var floats []float64
	for _, v := range vals {
		if i, err := strconv.Atoi(v); err == nil && strconv.Itoa(i) == v {
			ints = append(ints, i)
		}
		if f, err := strconv.ParseFloat(v, 64); err == nil && strconv.FormatFloat(f, 'f', -1, 64) == v {
			floats = append(floats, f)
		}
	}
	switch {
	case len(vals) > 0 && len(ints) == len(vals):
		port.FromInt(ints...)
	case len(vals) > 0 && len(floats) == len(vals):
		port.FromFloat(floats...)
	default:
		port.FromStr(vals...)
	}
}

// miniWorkflow: a second Workflow object in the same program: a source with one
// file, one shell-command process (two cores when there are at least two slots).
func miniWorkflow(name string, slots int, inPath string, proc string) *sp.Workflow {
	iw := sp.NewWorkflow(name, slots)
	src := components.NewFileSource(iw, proc+"_src", inPath)
	p := iw.NewProc(proc, "op "+proc+" -i {i:a} -o {o:o0}")
	p.SetOut("o0", "{i:a}."+proc+".o0")
	if slots >= 2 {
		p.CoresPerTask = 2
	}
	p.In("a").From(src.Out())
	return iw
}

// Build constructs the workflow. Everything here is public scipipe API.
func Build(w *WF, rt *Runtime) *sp.Workflow {
	// equivalent ways of saying the same thing with the public API, tape-chosen
	// (0 = the usual one): connections made from the receiving or the sending
	// side, the log file named explicitly
	api := simrt.S.Tape.Choose(simrt.StAPI, 4, 0)
	var wf *sp.Workflow
	if w.FullLogging && simrt.S.Tape.Choose(simrt.StAPI, 2, 0) == 1 {
		wf = sp.NewWorkflowCustomLogFile(w.Name, w.MaxTasks, "log/custom-"+w.Name+".log")
	} else {
		wf = sp.NewWorkflow(w.Name, w.MaxTasks)
	}
	rt.api, rt.nconn = api, 0
	connect, connectP := rt.connect, rt.connectP
	rt.WF = wf
	// nodes of stage 1 live in a second Workflow object, built here as well
	wf0 := wf
	var wf1 *sp.Workflow
	for i := range w.Nodes {
		if w.Nodes[i].Stage > 0 && wf1 == nil {
			wf1 = sp.NewWorkflow(w.Name+"_second", w.MaxTasks)
		}
	}
	rt.WF2 = wf1
	procs := make([]outPorter, len(w.Nodes))
	plain := make([]*sp.Process, len(w.Nodes))
	for i := range w.Nodes {
		n := &w.Nodes[i]
		wf := wf0
		if n.Stage > 0 {
			wf = wf1
		}
		switch n.Kind {
		case KFileSrc:
			procs[i] = components.NewFileSource(wf, n.Name, n.Files...)
		case KParamSrc:
			procs[i] = components.NewParamSource(wf, n.Name, n.Vals...)
		case KProc:
			p := wf.NewProc(n.Name, commandPattern(n))
			for _, o := range n.Outs {
				if o.Pattern != "" {
					p.SetOut(o.Name, o.Pattern)
				} // else: scipipe's default output path
			}
			if n.Cores > 0 {
				p.CoresPerTask = n.Cores
			}
			if n.ZeroCores {
				p.CoresPerTask = 0
			}
			if n.Prepend != "" {
				p.Prepend = n.Prepend
			}
			if n.NoSpawn {
				p.Spawn = false
			}
			if n.Custom != 0 {
				p.CustomExecute = customFunc(n)
			}
			procs[i] = p
			plain[i] = p
		default:
			procs[i] = buildComponent(wf, w, n, rt)
		}
	}
	recN := 0
	for i := range w.Nodes {
		n := &w.Nodes[i]
		wf := wf0
		if n.Stage > 0 {
			wf = wf1
		}
		if n.Kind == KProc {
			p := plain[i]
			for _, in := range n.Ins {
				if in.Unconnected {
					if in.Disconnected && len(in.From) > 0 {
						up := procs[in.From[0].Node].OutPort(in.From[0].Port)
						p.In(in.Name).From(up)
						p.In(in.Name).Disconnect(up.Name())
					}
					continue
				}
				for _, e := range in.From {
					up := procs[e.Node].OutPort(e.Port)
					if w.Nodes[e.Node].Rec {
						recN++
						r := newRecorder(wf, fmt.Sprintf("rec%d", recN), recKey(w.Nodes[e.Node].Name, e.Port, n.Name, in.Name), rt)
						connect(r.InPort("in"), up)
						connect(p.In(in.Name), r.OutPort("out"))
					} else {
						connect(p.In(in.Name), up)
					}
				}
			}
			for _, ps := range n.Params {
				if ps.Unconnected {
					continue
				}
				if ps.From != nil {
					connectP(p.InParam(ps.Name), procs[ps.From.Node].OutParamPort(ps.From.Port))
				}
				if ps.From == nil || len(ps.Vals) > 0 {
					// (both: the port is fed by an upstream process AND by FromStr)
					feedParams(p.InParam(ps.Name), ps.Vals)
				}
			}
		} else {
			connectComponent(wf, w, i, procs, rt)
		}
	}
	// terminal recorders: out-ports of recording nodes that nobody consumes
	consumed := map[Edge]bool{}
	for i := range w.Nodes {
		for _, in := range w.Nodes[i].Ins {
			for _, e := range in.From {
				consumed[e] = true
			}
		}
	}
	for i := range w.Nodes {
		n := &w.Nodes[i]
		if !n.Rec || n.Kind != KProc {
			continue
		}
		wf := wf0
		if n.Stage > 0 {
			wf = wf1
		}
		for _, o := range n.Outs {
			if consumed[Edge{i, o.Name}] || o.Stream {
				continue
			}
			recN++
			r := newRecorder(wf, fmt.Sprintf("rec%d", recN), recKey(n.Name, o.Name, "sink", ""), rt)
			r.InPort("in").From(procs[i].OutPort(o.Name))
		}
	}
	return wf
}

// Program is what the main goroutine of an incarnation executes.
func Program(w *WF, rt *Runtime) {
	// every incarnation starts as a fresh OS process would: package-level
	// state of the library is re-initialised (generated by the rewriter)
	sp.SimResetGlobals()
	components.SimResetGlobals()
	if !w.FullLogging {
		sp.InitLogError()
	}
	wf := Build(w, rt)
	if w.Twin {
		var wg simrt.WaitGroup
		wg.Add(1)
		twin := Build(w, rt)
		simrt.Go("harness:twin-workflow", func() {
			defer wg.Done()
			twin.Run()
		})
		wf.Run()
		wg.Wait()
	}
	if w.Parallel {
		var wg simrt.WaitGroup
		wg.Add(1)
		simrt.Go("harness:first-workflow", func() {
			defer wg.Done()
			wf.Run()
		})
		if w.ParallelFiles > 0 {
			var files []string
			for i := 0; i < w.ParallelFiles; i++ {
				files = append(files, fmt.Sprintf("second_in_%d.txt", i))
			}
			iw := sp.NewWorkflow("second", w.ParallelSlots)
			src := components.NewFileSource(iw, "second_src", files...)
			p := iw.NewProc("second", "op second -i {i:a} -o {o:o0}")
			p.SetOut("o0", "{i:a}.second.o0")
			p.In("a").From(src.Out())
			iw.Run()
		} else {
			miniWorkflow("second", 2, "second_in.txt", "second").Run()
		}
		wg.Wait()
	}
	switch {
	case w.Parallel, w.Twin:
	case w.RunToNone && w.RunToMode == 1:
		wf.RunToRegex("^no_such_process_[0-9]+$") // (a typo: selects nothing)
	case w.RunToNone && w.RunToMode == 2:
		wf.RunToProcs()
	case w.RunToNone:
		wf.RunTo()
	case len(w.RunTo) == 0:
		wf.Run()
	case w.RunToMode == 1:
		wf.RunToRegex(w.RunTo...) // patterns as given (unanchored, like the library documents)
	case w.RunToMode == 2:
		var ps []sp.WorkflowProcess
		for _, t := range w.RunTo {
			ps = append(ps, wf.Proc(t))
		}
		wf.RunToProcs(ps...)
	default:
		wf.RunTo(w.RunTo...)
	}
	if rt.WF2 != nil && len(w.RunTo) == 0 && !w.RunToNone {
		rt.WF2.Run()
	}
	s := simrt.S
	for _, del := range w.Rounds {
		// the driver program deletes some results and runs the workflow again:
		// same process, library globals keep whatever they accumulated
		for _, ap := range del {
			if dir := simrt.Find(s.FS.Root, ap[:strings.LastIndex(ap, "/")]); dir != nil {
				delete(dir.Ents, ap[strings.LastIndex(ap, "/")+1:])
				delete(dir.Ents, ap[strings.LastIndex(ap, "/")+1:]+".audit.json")
			}
		}
		s.Note("ROUND", fmt.Sprintf("%d file(s) deleted", len(del)))
		rt.PreRound = append(rt.PreRound, s.FS.Snapshot())
		Build(w, rt).Run()
	}
	// the workflow program reports completion and snapshots its directory
	rt.RunReturned = true
	rt.ReturnStep = s.Steps
	rt.ReturnSnap = s.FS.Snapshot()
	for _, o := range s.Shell.Running() {
		rt.ReturnRunning = append(rt.ReturnRunning, o.Key)
	}
	s.Note("RUN-RETURNED", "")
}
