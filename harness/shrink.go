package harness

import (
	"time"

	"verif/simrt"
)

// Tape shrinking in the style of Hypothesis: truncate, zero blocks, delete
// blocks, lower values - while the same clause with the same signature fails.
// 0 is "the simplest thing" everywhere, so this removes processes and items
// from the workflow, preemptions from the schedule and faults from the fault
// sequence at the same time.

type Streams = [simrt.NumStreams][]uint32

func RunWithStreams(ch *Check, tier string, seed uint64, in Streams, trace bool) (*Case, Verdict) {
	t := simrt.NewReplayTape(seed, in)
	c := NewCase(ch.ID, tier, t)
	c.Trace = trace
	v := ch.Run(c)
	return c, v
}

func total(s Streams) int {
	n := 0
	for _, x := range s {
		n += len(x)
	}
	return n
}

func weight(s Streams) int {
	n := 0
	for _, x := range s {
		for _, v := range x {
			n += int(v)
		}
	}
	return n
}

func trimZeros(s Streams) Streams {
	for i := range s {
		x := s[i]
		for len(x) > 0 && x[len(x)-1] == 0 {
			x = x[:len(x)-1]
		}
		s[i] = x
	}
	return s
}

func Shrink(ch *Check, tier string, seed uint64, start Streams, want Verdict, budget time.Duration) (Streams, int) {
	deadline := time.Now().Add(budget)
	best := trimZeros(start)
	tries := 0
	same := func(v Verdict) bool {
		return v.Status == "violation" && v.Clause == want.Clause && v.Sig == want.Sig
	}
	try := func(cand Streams) bool {
		if time.Now().After(deadline) {
			return false
		}
		tries++
		c, v := RunWithStreams(ch, tier, seed, cand, false)
		if same(v) {
			// keep what was actually consumed (never longer than cand)
			used := c.Tape.UsedStreams()
			for i := range used {
				if len(used[i]) > len(cand[i]) {
					used[i] = used[i][:len(cand[i])]
				}
			}
			best = trimZeros(used)
			return true
		}
		return false
	}
	clone := func(s Streams) Streams {
		var o Streams
		for i := range s {
			o[i] = append([]uint32(nil), s[i]...)
		}
		return o
	}
	improved := true
	for improved && time.Now().Before(deadline) {
		improved = false
		for st := 0; st < int(simrt.NumStreams); st++ {
			// truncate
			for n := len(best[st]) / 2; n >= 0 && len(best[st]) > 0; n /= 2 {
				if n >= len(best[st]) {
					break
				}
				cand := clone(best)
				cand[st] = cand[st][:n]
				if try(cand) {
					improved = true
				}
				if n == 0 {
					break
				}
			}
			// zero blocks
			for bs := 16; bs >= 1; bs /= 2 {
				for off := 0; off < len(best[st]); off += bs {
					cand := clone(best)
					nz := false
					for k := off; k < off+bs && k < len(cand[st]); k++ {
						if cand[st][k] != 0 {
							nz = true
							cand[st][k] = 0
						}
					}
					if nz && try(cand) {
						improved = true
					}
				}
			}
			// delete blocks
			for bs := 8; bs >= 1; bs /= 2 {
				for off := 0; off+bs <= len(best[st]); {
					cand := clone(best)
					cand[st] = append(cand[st][:off], cand[st][off+bs:]...)
					if try(cand) {
						improved = true
					} else {
						off += bs
					}
				}
			}
			// lower values
			for k := 0; k < len(best[st]); k++ {
				v := best[st][k]
				for _, nv := range []uint32{v / 2, v - 1} {
					if v == 0 || nv >= v {
						continue
					}
					cand := clone(best)
					cand[st][k] = nv
					if try(cand) {
						improved = true
						break
					}
				}
			}
		}
	}
	return best, tries
}
