package harness

import (
	"fmt"
	"sort"
	"strings"

	"verif/simrt"
)

// C06: at every instant, sum of CoresPerTask over executing tasks <= max.
// C07: slots are deadlock-free and work-conserving; oversize cores rejected.

func coresOf(w *WF) map[string]int {
	m := map[string]int{}
	for _, n := range w.Nodes {
		c := n.Cores
		if c < 1 {
			c = 1
		}
		if n.ZeroCores {
			c = 0
		}
		m[n.Name] = c
	}
	return m
}

// slotInvariant returns an OnStep hook that checks the slot bound exactly:
// the simulator sees every command start and exit.
func slotInvariant(w *WF, c *Case) func(inc *Inc) {
	cores := coresOf(w)
	return func(inc *Inc) {
		if len(inc.Viol) > 0 {
			return
		}
		sum, second := 0, 0
		run := inc.Sim.Shell.Running()
		for _, o := range run {
			if o.Name == "second" && w.ParallelFiles > 0 {
				second++ // (one-core tasks of the second workflow: a slot pool of its own)
				continue
			}
			sum += cores[o.Name]
		}
		if second > w.ParallelSlots && w.ParallelFiles > 0 {
			inc.Viol = append(inc.Viol, fmt.Sprintf("step %d: %d one-core tasks of the second workflow execute at once, its maxConcurrentTasks=%d (the first workflow has %d)", inc.Sim.Steps, second, w.ParallelSlots, w.MaxTasks))
		}
		if len(run) >= 2 {
			c.Probe("two-commands-overlap")
		}
		if sum == w.MaxTasks {
			c.Probe("slots-exactly-full")
		}
		if sum > w.MaxTasks {
			var ks []string
			for _, o := range run {
				ks = append(ks, fmt.Sprintf("%s(cores %d)", o.Key, cores[o.Name]))
			}
			inc.Viol = append(inc.Viol, fmt.Sprintf("step %d: %d cores in use by executing tasks %v, maxConcurrentTasks=%d", inc.Sim.Steps, sum, ks, w.MaxTasks))
		}
	}
}

var profC06 = Profile{
	MaxProcs: 4, MaxItems: 6, Bufsizes: []int{0, 1, 2}, MaxSlots: 6,
	Params: true, MultiOut: true, FanIn: true, FanOut: true, Custom: true,
	Cores: true, TwoSources: true, Zip: true,
	// (a joining task with more cores than its sub-stream has members)
	Joins: true,
}

func init() {
	Register(&Check{ID: "C06", Level: "exploration",
		Rule: "one case = one generated workflow with mixed CoresPerTask (1..max) and 1..6 slots under one schedule; the invariant 'sum of cores over tasks between command start and exit <= maxConcurrentTasks' is evaluated after EVERY simulator step (exact, not a lower bound). Some cases pre-place outputs so that skipped tasks interleave. Round 6: a second, smaller workflow with three one-core tasks counted against its own bound; FileSplitter feeding tasks that keep every slot busy. Round 7: background helpers that hold the output pipe count with their task; late outputs; custom log file. Round 8: processes with CoresPerTask = 0; joined in-ports. distinct = event-log hash; non-trivial = >=2 tasks executed and >=1 non-default choice",
		Run: func(c *Case) Verdict {
			var w *WF
			switch c.Tape.Choose(simrt.StGen, 6, 0) {
			case 1:
				// a streaming producer/consumer pair next to ordinary tasks: the
				// consumer's command executes too and must be accounted for
				w = streamWF(c)
				n := 2 + c.Tape.Choose(simrt.StGen, 4, 0)
				oneToOne(w, "side", Edge{srcNode(w, "srcside", n, ""), "out"})
			case 2:
				// a FileSplitter (a component that executes no task itself) feeding a
				// process whose tasks keep every slot busy
				w, _ = componentCaseKind(c, "splitter")
				for i := range w.Nodes {
					if w.Nodes[i].Kind == KSplitter {
						w.Nodes[i].Rec = false
					}
				}
				if w.MaxTasks > 2 {
					w.MaxTasks = 1 + c.Tape.Choose(simrt.StGen, 2, 0)
				}
				c.Probe("splitter-under-full-slots")
			default:
				w = Generate(c.Tape, tierProfile(profC06, c.Tier))
				// a process whose tasks need no slot at all (CoresPerTask = 0): they run
				// without one and must not hand one back either
				for i := range w.Nodes {
					if n := &w.Nodes[i]; n.Kind == KProc && c.Tape.Choose(simrt.StGen, 8, 0) == 1 {
						n.ZeroCores = true
						n.Cores = 0
						c.Probe("zero-core-process")
					}
				}
			}
			// a quarter with scipipe's default logging (the program may then name its log
			// file itself: NewWorkflowCustomLogFile)
			w.FullLogging = c.Tape.Choose(simrt.StGen, 4, 0) == 1
			switch bg := c.Tape.Choose(simrt.StGen, 16, 0); bg {
			case 1, 2, 3:
				// a command that leaves a helper behind which goes on working (and holds
				// the command's output pipe): the helper is part of the executing task;
				// in variant 2 it creates the output only after the command returned
				// (the task then fails for a missing output: fine, only the bound is judged)
				for i := range w.Nodes {
					if n := &w.Nodes[i]; n.Kind == KProc && n.Custom == 0 && len(n.Outs) > 0 && !n.Outs[0].Stream && n.Name != "prod" && n.Name != "cons" {
						if bg == 3 {
							n.BgLate = true
						} else {
							n.BgTail = true
						}
						c.Fault("background-helper")
						break
					}
				}
			}
			if c.Tape.Choose(simrt.StGen, 8, 0) == 1 {
				// a second, smaller workflow in the same program (created after the
				// first, run concurrently): 1 or 2 slots, three one-core tasks - each
				// workflow has its own bound
				w.Parallel = true
				w.ParallelSlots = 1 + c.Tape.Choose(simrt.StGen, 2, 0)
				w.ParallelFiles = 3
				for i := 0; i < 3; i++ {
					w.Sources[fmt.Sprintf("second_in_%d.txt", i)] = "input of the second workflow\n"
				}
				c.Probe("second-smaller-workflow")
			}
			// bias towards multi-core tasks: this check is about them
			for i := range w.Nodes {
				n := &w.Nodes[i]
				if n.Kind == KProc && n.Name != "prod" && n.Name != "cons" && c.Tape.Choose(simrt.StGen, 2, 0) == 1 {
					n.Cores = 1 + c.Tape.Choose(simrt.StGen, w.MaxTasks, 0)
				}
				// launcher prefix (Process.Prepend): the task still runs here
				if n.Kind == KProc && n.Custom == 0 && c.Tape.Choose(simrt.StGen, 4, 0) == 1 {
					n.Prepend = []string{"nice -n 10", "env", "nohup"}[c.Tape.Choose(simrt.StGen, 3, 0)]
				}
			}
			if c.Tape.Choose(simrt.StGen, 6, 0) == 1 {
				// many slots and many cores per task (more than the host has CPUs)
				k := 8 + 4*c.Tape.Choose(simrt.StGen, 6, 0)
				w.MaxTasks *= k
				for i := range w.Nodes {
					if w.Nodes[i].Kind == KProc && w.Nodes[i].Cores > 0 {
						w.Nodes[i].Cores *= k
					}
				}
			}
			c.Sample = sample(w)
			ex := Eval(w)
			var root *simrt.Inode
			nextIno := 0
			switch c.Tape.Choose(simrt.StGen, 4, 0) {
			case 1:
				root, nextIno = preplace(c, w, ex, false)
			case 2:
				// any subset of files, also only some outputs of a multi-output task
				// (the state a kill between two renames leaves): whatever the library
				// does with such tasks, it must do within the slots
				root, nextIno = preplace(c, w, ex, true)
			}
			inc := RunInc(w, c.Tape, root, nextIno, IncOpts{KillAt: -1, Strategy: strategyOf(c.Tape), Trace: c.Trace, OnStep: slotInvariant(w, c)})
			c.Absorb(inc)
			if v, ok := inconclusiveEnd(inc); ok {
				return v
			}
			if len(inc.Viol) > 0 {
				return Viol("slots-exceeded", "", "%s", inc.Viol[0])
			}
			if !completedOK(inc) {
				return Skipped(Viol("no-completion", "", "workflow did not complete: %s", endDesc(inc)))
			}
			return OK()
		}})
}

// --- C07 ---------------------------------------------------------------------------

// barrierWF: groups of k tasks with c cores each that all fit into the slots
// together and can only finish if they really execute simultaneously.
func barrierWF(c *Case) *WF {
	t := c.Tape
	w := &WF{Name: "wf", Sources: map[string]string{}}
	groups := 1 + t.Choose(simrt.StGen, 2, 0)
	total := 0
	for g := 0; g < groups; g++ {
		k := 2 + t.Choose(simrt.StGen, 3, 0)
		cores := 1 + t.Choose(simrt.StGen, 3, 0)
		src := Node{Name: fmt.Sprintf("src%d", g), Kind: KFileSrc}
		for i := 0; i < k; i++ {
			p := fmt.Sprintf("b%d_%d.txt", g, i)
			src.Files = append(src.Files, p)
			w.Sources[p] = fmt.Sprintf("barrier source %d %d\n", g, i)
		}
		w.Nodes = append(w.Nodes, src)
		// (a group of Go-function tasks must run side by side like any other)
		custom := 0
		if t.Choose(simrt.StGen, 3, 0) == 1 {
			custom = 1
		}
		w.Nodes = append(w.Nodes, Node{Name: fmt.Sprintf("p%d", g), Kind: KProc, Cores: cores, Barrier: k, Custom: custom,
			Ins:  []InSpec{{Name: "a", From: []Edge{{len(w.Nodes) - 1, "out"}}}},
			Outs: []OutSpec{{Name: "o0", Pattern: fmt.Sprintf("{i:a}.p%d.o0", g)}}})
		total += k * cores
	}
	w.MaxTasks = total + t.Choose(simrt.StGen, 3, 0)
	w.Bufsize = []int{0, 1, 2}[t.Choose(simrt.StGen, 3, 0)]
	return w
}

var profC07 = Profile{
	MaxProcs: 4, MaxItems: 5, Bufsizes: []int{0, 1, 2}, MaxSlots: 6,
	MultiOut: true, FanIn: true, FanOut: true, Cores: true, TwoSources: true, Zip: true, Sinkless: true,
	// (Go-function tasks take and return their slots on a code path of their own)
	Custom: true,
}

// releaseWaveWF: a wide task (k-1 of k slots) is known to be executing - it
// rendezvous with a one-core "gate" task - when the gate's k outputs make k
// one-core tasks ready that rendezvous among themselves. At most one of them
// fits next to the wide task; when the wide task returns its k-1 slots in one
// go, all waiting ones fit together and must all be admitted - completion is
// impossible otherwise. (No task of the group can be ready before the wide
// task holds all its slots, so no partial acquisition can interfere.)
func releaseWaveWF(c *Case) *WF {
	t := c.Tape
	w := &WF{Name: "wf", Sources: map[string]string{}}
	k := 3 + t.Choose(simrt.StGen, 3, 0)
	sb := srcNode(w, "srcbig", 1, "")
	sg := srcNode(w, "srcgate", 1, "")
	addNode(w, Node{Name: "big", Kind: KProc, Cores: k - 1, BGroup: "grp",
		Ins:    []InSpec{{Name: "a", From: []Edge{{sb, "out"}}}},
		Params: []ParamSpec{{Name: "grp", Vals: []string{"g1"}}},
		Outs:   []OutSpec{{Name: "o0", Pattern: "{i:a}.big.o0"}}})
	gate := Node{Name: "gate", Kind: KProc, Cores: 1, BGroup: "grp",
		Ins:    []InSpec{{Name: "a", From: []Edge{{sg, "out"}}}},
		Params: []ParamSpec{{Name: "grp", Vals: []string{"g1"}}}}
	var from []Edge
	gi := len(w.Nodes)
	for i := 0; i < k; i++ {
		gate.Outs = append(gate.Outs, OutSpec{Name: fmt.Sprintf("o%d", i), Pattern: fmt.Sprintf("{i:a}.gate.o%d", i)})
		from = append(from, Edge{gi, fmt.Sprintf("o%d", i)})
	}
	addNode(w, gate)
	addNode(w, Node{Name: "small", Kind: KProc, Cores: 1, Barrier: k,
		Ins:  []InSpec{{Name: "a", From: from}},
		Outs: []OutSpec{{Name: "o0", Pattern: "{i:a}.small.o0"}}})
	w.MaxTasks = k
	w.Bufsize = []int{0, 1, 2}[t.Choose(simrt.StGen, 3, 0)]
	return w
}

// staggeredWF: one process, n one-core tasks, two of which (the first and a
// later one, further apart than slots allow at once) rendezvous: as soon as
// the tasks in between have released their slots the later one fits next to
// the first and must be started - completion is impossible otherwise.
func staggeredWF(c *Case) *WF {
	t := c.Tape
	w := &WF{Name: "wf", Sources: map[string]string{}}
	slots := 2 + t.Choose(simrt.StGen, 4, 0)
	n := slots + 1 + t.Choose(simrt.StGen, 4, 0)
	src := srcNode(w, "src0", n, "")
	partner := slots + t.Choose(simrt.StGen, n-slots, 0)
	var grp []string
	for i := 0; i < n; i++ {
		if i == 0 || i == partner {
			grp = append(grp, "g1")
		} else {
			grp = append(grp, fmt.Sprintf("u%d", i))
		}
	}
	addNode(w, Node{Name: "p0", Kind: KProc, Cores: 1, BGroup: "grp",
		Ins:    []InSpec{{Name: "a", From: []Edge{{src, "out"}}}},
		Params: []ParamSpec{{Name: "grp", Vals: grp}},
		Outs:   []OutSpec{{Name: "o0", Pattern: "{i:a}.p0.o0"}}})
	w.MaxTasks = slots
	w.Bufsize = []int{0, 1, 2}[t.Choose(simrt.StGen, 3, 0)]
	return w
}

func init() {
	Register(&Check{ID: "C07", Level: "exploration",
		Rule: "three kinds of cases, tape-chosen: (a) barrier waves: groups of k tasks x c cores that fit the slots together, each command blocking until k commands of its group are inside the barrier - completion is possible only if they really run simultaneously, otherwise the simulator reports the deadlock (no time-outs); variants: a staggered rendezvous beyond the first wave, and a release wave (k one-core tasks become ready while a task holding k-1 of the k slots is known to execute; when it returns its slots at once all of them must be admitted); (b) mixed-core contention: generated workflows with cores 1..max competing token by token (every deposit and the mutex are scheduling points); (c) a process with CoresPerTask > max must be rejected: exit!=0, no hang, none of its commands executed. Round 5: Go-function tasks in the contention graphs; a Go-function task that runs a nested workflow while holding outer slots. Round 6: rendezvous groups of Go-function tasks. Round 7: (b) also as the re-run of a partly finished workflow; (a) the release wave is timed on an idle machine (late-admission). distinct = event-log hash; non-trivial = >=2 tasks executed (a,b) or the rejection (c), and >=1 non-default choice",
		Run: func(c *Case) Verdict {
			kind := c.Tape.Choose(simrt.StGen, 3, 0)
			switch kind {
			case 0:
				w := barrierWF(c)
				idle := false
				switch c.Tape.Choose(simrt.StGen, 4, 0) {
				case 1:
					w = staggeredWF(c)
				case 2:
					w = releaseWaveWF(c)
					// on an otherwise idle machine (simulated time passes only while
					// everything waits) the admission of the wave can be timed
					idle = c.Tape.Choose(simrt.StGen, 2, 0) == 1
				}
				for i := range w.Nodes {
					// Process.Spawn = false is a no-op for the library: tasks of such a
					// process must still run side by side
					if w.Nodes[i].Kind == KProc && c.Tape.Choose(simrt.StGen, 4, 0) == 1 {
						w.Nodes[i].NoSpawn = true
					}
				}
				c.Sample = "barrier: " + sample(w)
				ex := Eval(w)
				inc := RunInc(w, c.Tape, nil, 0, IncOpts{KillAt: -1, Strategy: strategyOf(c.Tape), Trace: c.Trace, OnStep: slotInvariant(w, c), NoEarlyTimers: idle})
				c.Absorb(inc)
				if v, ok := inconclusiveEnd(inc); ok {
					return v
				}
				if inc.Sim.End == simrt.EndDeadlock {
					return Viol("not-work-conserving", "barrier", "tasks that fit into the free slots together did not execute simultaneously: %s", endDesc(inc))
				}
				if idle && completedOK(inc) {
					// the wide task returned its slots when its command had ended; every
					// waiting one-core task fits from then on and nothing else is going on
					var bigEnd, lastStart int64
					for _, o := range inc.Sim.Shell.Insts {
						if (o.Name == "big" || o.Name == "gate") && o.EndAbs > bigEnd {
							bigEnd = o.EndAbs // (the gate's outputs make the wave ready)
						}
						if o.Name == "small" && o.StartAbs > lastStart {
							lastStart = o.StartAbs
						}
					}
					c.Probe("release-wave-timed")
					if bigEnd > 0 && lastStart-bigEnd > 5e9 {
						return Viol("not-work-conserving", "late-admission", "on an idle machine a one-core task that fitted into the slots returned by the wide task was started only %.1f simulated s after the wide task's command had ended and the wave was ready", float64(lastStart-bigEnd)/1e9)
					}
				}
				if len(inc.Viol) > 0 {
					return Viol("slots-exceeded", "", "%s", inc.Viol[0])
				}
				if v := flowOracle(inc, ex); v.Status == "violation" {
					return Skipped(v)
				}
				return OK()
			case 1:
				w := Generate(c.Tape, tierProfile(profC07, c.Tier))
				if c.Tape.Choose(simrt.StGen, 5, 0) == 1 {
					// a gathering component (which executes no task itself) between
					// processes whose tasks need every slot
					w = concatWF(c)
					w.MaxTasks = 1 + c.Tape.Choose(simrt.StGen, 2, 0)
				}
				for i := range w.Nodes {
					n := &w.Nodes[i]
					if n.Kind == KProc {
						n.Cores = 1 + c.Tape.Choose(simrt.StGen, w.MaxTasks, 0)
					}
				}
				nested := false
				if c.Tape.Choose(simrt.StGen, 4, 0) == 1 {
					// a Go-function task runs a nested workflow (with slots of its own) while
					// it holds slots of the outer one: the two slot pools must not interfere
					for i := range w.Nodes {
						if n := &w.Nodes[i]; n.Kind == KProc && n.Custom != 0 && len(n.Ins) > 0 && !n.Ins[0].Join {
							n.Nest = 1 + c.Tape.Choose(simrt.StGen, 2, 0)
							nested = true
							c.Probe("nested-workflow")
							break
						}
					}
				}
				c.Sample = "contention: " + sample(w)
				ex := Eval(w)
				opts := IncOpts{KillAt: -1, Strategy: strategyOf(c.Tape), Trace: c.Trace, OnStep: slotInvariant(w, c)}
				if nested {
					opts.OnStep = nil // (the invariant counts one pool; here there are two)
				}
				if c.Tape.Choose(simrt.StFault, 6, 0) == 1 {
					// while tasks wait for slots, a declared output of one of them appears
					// from outside (the user copies a finished result in: reference bytes).
					// Whether that task then runs or not, no slot may be lost.
					var outs []string
					for _, t := range ex.Tasks {
						for _, p := range t.Outs {
							if !ex.StreamPaths[Abs(p)] {
								outs = append(outs, Abs(p))
							}
						}
					}
					sort.Strings(outs)
					if len(outs) > 0 {
						p := outs[c.Tape.Choose(simrt.StFault, len(outs), 0)]
						opts.InjectAt = 8 * (1 + c.Tape.Choose(simrt.StFault, 64, 0))
						opts.InjectPath, opts.InjectData = p, ex.Files[p]
						c.Sample = fmt.Sprintf("%s appears from outside at step %d; %s", strings.TrimPrefix(p, "/work/"), opts.InjectAt, c.Sample)
					}
				}
				var root *simrt.Inode
				nextIno := 0
				if !nested && opts.InjectAt == 0 && c.Tape.Choose(simrt.StFault, 5, 0) == 1 {
					// a partly finished workflow: a complete earlier run, then some results
					// were deleted. Tasks whose outputs exist ask for no slot at all; the
					// others compete for the slots exactly as in a first run.
					inc0 := RunInc(w, c.Tape, nil, 0, IncOpts{KillAt: -1, Trace: c.Trace})
					c.Absorb(inc0)
					if v, ok := inconclusiveEnd(inc0); ok {
						return v
					}
					if !completedOK(inc0) {
						return Skipped(Viol("first-run", "", "%s", endDesc(inc0)))
					}
					var gone []string
					for _, t := range ex.Tasks {
						if len(t.Outs) == 0 || c.Tape.Choose(simrt.StFault, 2, 0) == 0 {
							continue
						}
						for _, p := range t.Outs {
							if !ex.StreamPaths[Abs(p)] {
								inc0.Sim.FS.RemoveAll("/work", Abs(p))
								inc0.Sim.FS.RemoveAll("/work", Abs(p)+".audit.json")
								gone = append(gone, p)
							}
						}
					}
					root, nextIno = inc0.Sim.FS.Root, inc0.Sim.FS.NextIno
					c.Fault("partly-finished")
					c.Sample = fmt.Sprintf("re-run after deleting %v; %s", gone, c.Sample)
				}
				inc := RunInc(w, c.Tape, root, nextIno, opts)
				c.Absorb(inc)
				if v, ok := inconclusiveEnd(inc); ok {
					return v
				}
				if inc.Sim.End == simrt.EndDeadlock {
					d := inc.Sim.DeadlockString()
					// only a deadlock in which a task waits for slots (token channel / acquisition lock / a queue for them) is this property's
					if strings.Contains(d, "chan struct {}") || strings.Contains(d, "chan<- struct {}") || strings.Contains(d, "mutex") || strings.Contains(d, "cond #") {
						return Viol("slot-deadlock", deadlockSig(inc), "tasks waiting for slots block each other forever: %s", endDesc(inc))
					}
					return Skipped(Viol("deadlock", "", "%s", endDesc(inc)))
				}
				if nested || root != nil {
					return OK() // (the nested runs' files are not part of the reference; a re-run executes only some of the tasks)
				}
				if v := flowOracle(inc, ex); v.Status == "violation" {
					return Skipped(v)
				}
				return OK()
			default:
				w := Generate(c.Tape, tierProfile(profC07, c.Tier))
				var procs []int
				for i := range w.Nodes {
					if w.Nodes[i].Kind == KProc {
						procs = append(procs, i)
					}
				}
				victim := &w.Nodes[procs[c.Tape.Choose(simrt.StGen, len(procs), 0)]]
				victim.Cores = w.MaxTasks + 1 + c.Tape.Choose(simrt.StGen, 3, 0)
				c.Sample = "oversize " + victim.Name + ": " + sample(w)
				c.Fault("oversize-cores")
				inc := RunInc(w, c.Tape, nil, 0, IncOpts{KillAt: -1, Strategy: strategyOf(c.Tape), Trace: c.Trace})
				c.Absorb(inc)
				c.Tasks = 2 // the rejection itself is the case
				if v, ok := inconclusiveEnd(inc); ok {
					return v
				}
				s := inc.Sim
				if s.End == simrt.EndDeadlock {
					return Viol("oversize-hang", "", "process %s asks for %d cores of %d and the workflow hangs: %s", victim.Name, victim.Cores, w.MaxTasks, endDesc(inc))
				}
				if !(s.End == simrt.EndExit && s.ExitCode != 0) {
					return Viol("oversize-not-rejected", "", "process %s asks for %d cores of %d but the program ended with %s", victim.Name, victim.Cores, w.MaxTasks, endDesc(inc))
				}
				for _, e := range s.Shell.Trace {
					if e.Kind == "start" && e.Name == victim.Name {
						return Viol("oversize-executed", "", "a command of the rejected process %s was executed: %s", victim.Name, e.Key)
					}
				}
				return OK()
			}
		}})
}
