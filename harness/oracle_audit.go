package harness

import (
	"io"
	"encoding/json"
	"fmt"
	"sort"
	"strings"
	"time"

	"verif/simrt"
)

// C10 (complete and faithful audit record), C11 (provenance survives restarts).

type AuditRec struct {
	ID          string
	ProcessName string
	Command     string
	Params      map[string]string
	Tags        map[string]string
	StartTime   time.Time
	FinishTime  time.Time
	ExecTimeNS  int64
	OutFiles    map[string]string
	Upstream    map[string]*AuditRec
}

func readAudit(root *simrt.Inode, abs string) (*AuditRec, error) {
	n := simrt.Find(root, abs+".audit.json")
	if n == nil || n.Kind != simrt.KFile {
		return nil, fmt.Errorf("audit file %s.audit.json does not exist", abs)
	}
	var r AuditRec
	dec := json.NewDecoder(strings.NewReader(string(n.Data)))
	dec.DisallowUnknownFields()
	if err := dec.Decode(&r); err != nil {
		return nil, fmt.Errorf("audit file %s.audit.json is not valid JSON for an audit record: %v (%q)", abs, err, clip(n.Data))
	}
	// the file is ONE JSON document: nothing but white space may follow it
	var extra json.RawMessage
	if err := dec.Decode(&extra); err != io.EOF {
		tail := n.Data
		if off := int(dec.InputOffset()); off > 40 && off <= len(tail) {
			tail = tail[off-40:]
		}
		return nil, fmt.Errorf("audit file %s.audit.json is not valid JSON: data after the end of the record (%v; ...%q)", abs, err, clip(tail))
	}
	return &r, nil
}

func mapEq(a, b map[string]string) bool {
	if len(a) != len(b) {
		return false
	}
	for k, v := range a {
		if w, ok := b[k]; !ok || w != v {
			return false
		}
	}
	return true
}

func sortedKeys[V any](m map[string]V) []string {
	var k []string
	for x := range m {
		k = append(k, x)
	}
	sort.Strings(k)
	return k
}

// timingExact: the check that runs uses the fine-grained simulated clock (C20
// coarsens it; then recorded times are rounded down and cannot bracket).
var timingExact = true

// compareAudit compares a record with the reference lineage, recursively.
// where: human-readable location. top: this is the record of the file itself.
func compareAudit(r *AuditRec, lin *Lin, ex *Expect, insts map[string]*simrt.OpInst, where string, top string, self string) (string, string) {
	if r == nil {
		return "audit-missing-record", where + ": record is null"
	}
	if lin.Source {
		if r.ProcessName != "" || len(r.Upstream) != 0 || r.Command != "" {
			return "audit-source", fmt.Sprintf("%s: a workflow source file carries a task record (process %q, command %q)", where, r.ProcessName, r.Command)
		}
		for k, v := range r.Tags {
			if !ex.TagKeys[k] || v != TagValue(self) {
				return "audit-tags-extra", fmt.Sprintf("%s: tag %s=%s does not belong to the record of source file %s", where, k, v, self)
			}
		}
		return "", ""
	}
	if r.ProcessName != lin.Proc {
		return "audit-process", fmt.Sprintf("%s: ProcessName %q, produced by %q", where, r.ProcessName, lin.Proc)
	}
	if !mapEq(r.Params, lin.Params) {
		return "audit-params", fmt.Sprintf("%s: Params %v, task had %v", where, r.Params, lin.Params)
	}
	if !mapEq(r.OutFiles, lin.OutFiles) {
		return "audit-outfiles", fmt.Sprintf("%s: OutFiles %v, task produced %v", where, r.OutFiles, lin.OutFiles)
	}
	// tags: everything inherited from the inputs must be there; anything else
	// must be a tag some tagging component attaches
	for k, v := range lin.Tags {
		if r.Tags[k] != v {
			return "audit-tags-lost", fmt.Sprintf("%s: tag %s=%s attached upstream is missing (record has %v)", where, k, v, r.Tags)
		}
	}
	// any other tag must be one a tagging component attaches to THIS record:
	// taggers derive the value from the path of the item they tag, and the
	// items that carry this record are the task's own outputs (or the source file)
	// ... or to an ancestor's files (a sibling consumer may have seen, and a
	// task then inherits, a tag attached to its input concurrently)
	own := map[string]bool{}
	allowedTagValues(lin, self, own, 0)
	for k, v := range r.Tags {
		if _, ok := lin.Tags[k]; ok {
			continue
		}
		if !ex.TagKeys[k] || !own[v] {
			return "audit-tags-extra", fmt.Sprintf("%s: tag %s=%s does not belong to this record (neither inherited from its inputs nor attachable to one of its own or its ancestors' files %v)", where, k, v, sortedKeys(own))
		}
	}
	// command: exactly what the shell received
	if o := insts[lin.TaskKey]; o != nil && o.Argv != nil {
		if !strings.Contains(o.Script, r.Command) || r.Command == "" {
			return "audit-command", fmt.Sprintf("%s: Command %q is not the command that was executed (%q)", where, r.Command, o.Script)
		}
		words := strings.Fields(r.Command)
		// (the command may be one stage of a pipeline: "false | op ...")
		executed := append(append([]string(nil), o.Launcher...), o.Argv...)
		if !strings.HasSuffix(strings.Join(words, " "), strings.Join(executed, " ")) {
			return "audit-command", fmt.Sprintf("%s: Command %q differs from the executed words %v", where, r.Command, executed)
		}
	}
	if r.FinishTime.Before(r.StartTime) {
		return "audit-timing", fmt.Sprintf("%s: FinishTime %v before StartTime %v", where, r.FinishTime, r.StartTime)
	}
	if r.ExecTimeNS < 0 {
		return "audit-timing", fmt.Sprintf("%s: negative duration %d", where, r.ExecTimeNS)
	}
	if d := r.FinishTime.Sub(r.StartTime); int64(d) != r.ExecTimeNS {
		return "audit-timing", fmt.Sprintf("%s: duration %d ns recorded, FinishTime - StartTime is %d ns", where, r.ExecTimeNS, int64(d))
	}
	// faithful timing: the recorded interval contains the execution of the command
	// (on the simulated clock; only where the clock is not coarsened)
	// (the file's own record only: a nested record may stem from an earlier
	// execution of the ancestor, the one the kept descendant really consumed)
	if o := insts[lin.TaskKey]; o != nil && top != "" && timingExact && o.StartAbs > 0 && o.EndAbs >= o.StartAbs {
		if r.StartTime.UnixNano() > o.StartAbs || r.FinishTime.UnixNano() < o.EndAbs {
			return "audit-timing", fmt.Sprintf("%s: recorded interval [%d, %d] (unix ns) does not contain the execution of the command [%d, %d]", where, r.StartTime.UnixNano(), r.FinishTime.UnixNano(), o.StartAbs, o.EndAbs)
		}
	}
	// upstream: keyed by input path, complete, recursively faithful
	gotK, wantK := sortedKeys(r.Upstream), sortedKeys(lin.Upstream)
	if strings.Join(gotK, " ") != strings.Join(wantK, " ") {
		return "audit-upstream-keys", fmt.Sprintf("%s: Upstream keys %v, the task's inputs were %v", where, gotK, wantK)
	}
	for _, k := range wantK {
		if c, d := compareAudit(r.Upstream[k], lin.Upstream[k], ex, insts, where+" > Upstream["+k+"]", "", k); c != "" {
			return c, d
		}
	}
	return "", ""
}

// allowedTagValues collects the values tagging components may attach to the
// files of this record and of all its ancestors.
func allowedTagValues(lin *Lin, self string, into map[string]bool, depth int) {
	if lin == nil || depth > 30 {
		return
	}
	if lin.Source {
		into[TagValue(self)] = true
		return
	}
	for _, p := range lin.OutFiles {
		into[TagValue(p)] = true
	}
	for k, up := range lin.Upstream {
		allowedTagValues(up, k, into, depth+1)
	}
}

func instsByKey(incs ...*Inc) map[string]*simrt.OpInst {
	m := map[string]*simrt.OpInst{}
	for _, inc := range incs {
		for _, o := range inc.Sim.Shell.Insts {
			if o.Code == 0 && !o.Running {
				m[o.Key] = o
			}
		}
	}
	return m
}

func auditOracle(root *simrt.Inode, ex *Expect, insts map[string]*simrt.OpInst) Verdict {
	return auditOracleOpt(root, ex, insts, false)
}

// presentOnly: the run did not complete (an injected fault stopped it): only
// the outputs that were finalized are examined - each of them must still be
// accompanied by its complete and faithful record.
func auditOracleOpt(root *simrt.Inode, ex *Expect, insts map[string]*simrt.OpInst, presentOnly bool) Verdict {
	var paths []string
	for p := range ex.Files {
		if !ex.Extras[p] {
			paths = append(paths, p)
		}
	}
	sort.Strings(paths)
	for _, p := range paths {
		lin := ex.Lins[p]
		if lin == nil {
			continue
		}
		if presentOnly {
			if n := simrt.Find(root, p); n == nil || n.Kind != simrt.KFile {
				continue
			}
		}
		r, err := readAudit(root, p)
		if err != nil {
			return Viol("audit-unreadable", "", "%v", err)
		}
		if c, d := compareAudit(r, lin, ex, insts, strings.TrimPrefix(p, "/work/")+".audit.json", p, strings.TrimPrefix(p, "/work/")); c != "" {
			return Viol(c, "", "%s", d)
		}
	}
	return OK()
}

// taggedOnDiskOracle: after a run that completed, the record ON DISK of every
// file that passed through a tagging component holds the tag the component
// attached to it ("recording ... tags"; reading the record back must not lose
// what the item carried). The re-writes of one audit file by several
// components are serialised by the IP's lock and each marshals after its own
// AddTags, so the last one written holds every tag attached so far.
func taggedOnDiskOracle(root *simrt.Inode, ex *Expect) Verdict {
	for _, p := range sortedKeys(ex.Attached) {
		if n := simrt.Find(root, p); n == nil || n.Kind != simrt.KFile {
			continue
		}
		r, err := readAudit(root, p)
		if err != nil {
			return Viol("audit-unreadable", "", "%v", err)
		}
		for _, k := range sortedKeys(ex.Attached[p]) {
			if v := ex.Attached[p][k]; r.Tags[k] != v {
				return Viol("audit-tag-not-on-disk", "", "%s passed through a tagging component that attached %s=%s to it, but its audit file on disk records the tags %v: reading the record back loses the tag", strings.TrimPrefix(p, "/work/"), k, v, r.Tags)
			}
		}
	}
	return OK()
}

var profC10 = Profile{
	MaxProcs: 5, MaxItems: 3, Bufsizes: []int{0, 1, 2}, MaxSlots: 4,
	Params: true, MultiOut: true, FanIn: true, FanOut: true, NoPort: true, Custom: true,
	Subdirs: true, ParentAbs: true, NoOtherDevice: true, Cores: true, TwoSources: true, Zip: true, ParamSrc: true, Taggers: true, Joins: true, EmptyOuts: true,
}

func init() {
	Register(&Check{ID: "C10", Level: "exploration",
		Rule: "one case = one generated workflow (multi-input, multi-output, fan-in/out, parameters, MapToTags taggers, StreamToSubStream + joined in-ports, Go-function tasks, Process.Prepend launchers, empty outputs) under one tape-chosen schedule. For EVERY finalized output the audit file is parsed (strict JSON decoding into the record type) and compared field by field, recursively down to the source files, with the lineage tree of the independent reference: ProcessName, Params, OutFiles, Upstream keys, inherited tags (superset; extras only from taggers), Command = every word the simulated shell actually received (launcher included), StartTime<=FinishTime, duration>=0. Round 5: the record on disk of every file that passed a tagging component holds the tag; sibling outputs of one task tagged alike. Round 6: stale longer audit files at output paths; the audit file is ONE JSON document; per-cent signs on command lines; duration = finish - start, interval contains the execution. Round 7: parameters that are not on the command line; the sibling of a tagger on an idle machine. Round 8: two tagging components attaching different values under one key. distinct = event-log hash; non-trivial = >=2 tasks and >=1 non-default choice",
		Run: func(c *Case) Verdict {
			switch c.Tape.Choose(simrt.StGen, 9, 0) {
			case 1:
				return lazyTagCase(c)
			case 2:
				return globDepCase(c)
			case 3:
				return siblingTaggerCase(c)
			case 4:
				return siblingTaggerIdleCase(c)
			case 5:
				return conflictingTagCase(c)
			}
			w := Generate(c.Tape, tierProfile(profC10, c.Tier))
			// (before the tag arguments: it changes path names)
			if HideParams(c.Tape, w) {
				c.Probe("gofunc-with-hidden-params")
			}
			AddTagArgs(c.Tape, w)
			for i := range w.Nodes {
				// launcher prefix (Process.Prepend): part of the command that is executed
				if n := &w.Nodes[i]; n.Kind == KProc && n.Custom == 0 && c.Tape.Choose(simrt.StGen, 5, 0) == 1 {
					n.Prepend = []string{"nice -n 10", "env", "nohup"}[c.Tape.Choose(simrt.StGen, 3, 0)]
				}
				// a word with per-cent signs on the command line (printf formats, 100%)
				if n := &w.Nodes[i]; n.Kind == KProc && n.Custom == 0 && n.JoinMod == "" && c.Tape.Choose(simrt.StGen, 5, 0) == 1 {
					n.Note = []string{"100%", "%s_%d", "rate=5%v"}[c.Tape.Choose(simrt.StGen, 3, 0)]
				}
			}
			c.Sample = sample(w)
			ex := Eval(w)
			if c.Tape.Choose(simrt.StFault, 8, 0) == 1 {
				// the disk is full at one of the library's own writes (an audit file, a
				// Go function's output). Stopping is fine and nothing is claimed then
				// (C10 does not quantify over I/O errors: a torn re-write of an audit
				// file by a tagging component is possible on the unchanged tree); but a
				// run that REPORTS COMPLETION must have left every record complete
				k := 1 + c.Tape.Choose(simrt.StFault, 8, 0)
				c.Sample = fmt.Sprintf("disk full at Go-level write #%d: %s", k, c.Sample)
				inc := RunInc(w, c.Tape, nil, 0, IncOpts{KillAt: -1, Strategy: strategyOf(c.Tape), Trace: c.Trace, DiskFullAt: k})
				c.Absorb(inc)
				if v, ok := inconclusiveEnd(inc); ok {
					return v
				}
				if !completedOK(inc) {
					c.Probe("disk-full-run-stopped")
					return OK()
				}
				return auditOracleOpt(inc.Sim.FS.Root, ex, instsByKey(inc), false)
			}
			var root0 *simrt.Inode
			nextIno0 := 0
			if c.Tape.Choose(simrt.StGen, 6, 0) == 1 {
				// stale audit files of an earlier attempt lie at the paths of outputs that
				// do not exist (a command then did not produce its output; a result was
				// deleted by hand): valid JSON, much LONGER than the records to come - the
				// new record must replace the old file, not be written over its beginning
				s0, _ := freshFS(c, w)
				n := 0
				for _, p := range sortedKeys(ex.Files) {
					if ex.Extras[p] || ex.Owner[p] == nil || ex.StreamPaths[p] || c.Tape.Choose(simrt.StGen, 2, 0) == 1 {
						continue
					}
					stale := fmt.Sprintf("{\n    \"ID\": \"stalestalestalestale\",\n    \"ProcessName\": \"earlier_attempt\",\n    \"Command\": \"%s\",\n    \"Params\": {},\n    \"Tags\": {},\n    \"StartTime\": \"2001-01-01T00:00:00Z\",\n    \"FinishTime\": \"2001-01-01T00:00:01Z\",\n    \"ExecTimeNS\": 1000000000,\n    \"OutFiles\": {},\n    \"Upstream\": {}\n}", strings.Repeat("a long earlier command ", 300))
					s0.FS.PutFile(p+".audit.json", []byte(stale))
					n++
				}
				if n > 0 {
					root0, nextIno0 = s0.FS.Root, s0.FS.NextIno
					c.Fault("stale-longer-audit-files")
					c.Sample = "stale audit files at the output paths: " + c.Sample
				}
			}
			inc := RunInc(w, c.Tape, root0, nextIno0, IncOpts{KillAt: -1, Strategy: strategyOf(c.Tape), Trace: c.Trace})
			c.Absorb(inc)
			if v := flowOracle(inc, ex); v.Status != "ok" {
				if v.Status == "violation" {
					return Skipped(v)
				}
				return v
			}
			if v := auditOracle(inc.Sim.FS.Root, ex, instsByKey(inc)); v.Status != "ok" {
				return v
			}
			if len(ex.Attached) > 0 {
				c.Probe("tagged-file-record-on-disk-checked")
			}
			return taggedOnDiskOracle(inc.Sim.FS.Root, ex)
		}})
}

// --- C11 -----------------------------------------------------------------------------

var profC11 = Profile{
	MaxProcs: 4, MaxItems: 2, Bufsizes: []int{0, 1, 2}, MaxSlots: 3,
	Params: true, MultiOut: true, FanIn: true, FanOut: true,
	Subdirs: true, Zip: true, ParamSrc: true, Joins: true, EmptyOuts: true,
}

func parseAny(b []byte) (map[string]any, error) {
	var m map[string]any
	err := json.Unmarshal(b, &m)
	return m, err
}

// auditFilesOf returns abs path (of the data file) -> decoded audit JSON for
// every final declared output that has an audit file in the tree.
func auditFilesOf(root *simrt.Inode, ex *Expect) map[string]map[string]any {
	out := map[string]map[string]any{}
	for p := range ex.Files {
		if ex.Extras[p] {
			continue
		}
		if _, ok := idOf(root, p); !ok {
			continue
		}
		n := simrt.Find(root, p+".audit.json")
		if n == nil {
			continue
		}
		if m, err := parseAny(n.Data); err == nil {
			out[p] = m
		}
	}
	return out
}

// ancestorsIdentical: inside every record of the final tree, a nested record
// for a file whose audit file was on disk before the resuming incarnation
// must be identical to that audit file (ids and time stamps included).
// existed (optional): data files that were on disk when the resuming run
// started; they are not "newly produced" and are skipped at the top level
// (needed for histories in which an ancestor was re-produced in an earlier
// round while a descendant was kept: the kept file rightly holds the record
// of the ancestor it really consumed).
func ancestorsIdentical(final *simrt.Inode, before map[string]map[string]any, ex *Expect, existed map[string]bool) (string, string) {
	var paths []string
	for p := range ex.Files {
		paths = append(paths, p)
	}
	sort.Strings(paths)
	for _, p := range paths {
		if existed[p] {
			continue
		}
		n := simrt.Find(final, p+".audit.json")
		if n == nil {
			continue
		}
		top, err := parseAny(n.Data)
		if err != nil {
			return "audit-unreadable", fmt.Sprintf("%s.audit.json: %v", p, err)
		}
		var walk func(rec map[string]any, where string) (string, string)
		walk = func(rec map[string]any, where string) (string, string) {
			ups, _ := rec["Upstream"].(map[string]any)
			for _, k := range sortedKeys(ups) {
				child, _ := ups[k].(map[string]any)
				if child == nil {
					continue
				}
				if old, ok := before[Abs(k)]; ok && !taggedRecord(ex, Abs(k)) {
					// (records of files that a tagging component re-writes during the resume are
					// exempt; tags attached by tagging components are ignored at every depth: they
					// land on records shared by pointer at schedule-dependent moments)
					if !jsonEqual(stripTaggerTags(old, ex), stripTaggerTags(child, ex)) {
						ob, _ := json.Marshal(old)
						cb, _ := json.Marshal(child)
						return "ancestor-record-changed", fmt.Sprintf("%s > Upstream[%s] differs from the audit file of %s that was on disk before the resume (first difference at %s):\n  on disk: %s\n  in new record: %s", where, k, k, firstDiff(old, child, ""), clip2(ob), clip2(cb))
					}
					// identical to the file on disk: whatever lies below is that file's own
					// business (it is checked as a path of its own when newly produced)
					continue
				}
				if c, d := walk(child, where+" > Upstream["+k+"]"); c != "" {
					return c, d
				}
			}
			return "", ""
		}
		if c, d := walk(top, strings.TrimPrefix(p, "/work/")+".audit.json"); c != "" {
			return c, d
		}
	}
	return "", ""
}

// embeddedTagsOnDisk: in one file-system state, every (complete) audit file's
// nested ancestor records carry only tagger tags that the ancestor's own audit
// file - if it exists and parses - carries as well.
func embeddedTagsOnDisk(root *simrt.Inode, ex *Expect) (string, string) {
	files := WorkFiles(root)
	parsed := map[string]map[string]any{}
	for p, e := range files {
		if e.Kind == simrt.KFile && strings.HasSuffix(p, ".audit.json") && len(e.Data) > 0 {
			if m, err := parseAny(e.Data); err == nil {
				parsed[strings.TrimSuffix(p, ".audit.json")] = m
			}
		}
	}
	var walk func(owner string, rec map[string]any) (string, string)
	walk = func(owner string, rec map[string]any) (string, string) {
		ups, _ := rec["Upstream"].(map[string]any)
		for _, k := range sortedKeys(ups) {
			child, _ := ups[k].(map[string]any)
			if child == nil {
				continue
			}
			if disk, ok := parsed[Abs(k)]; ok {
				ct, _ := child["Tags"].(map[string]any)
				dt, _ := disk["Tags"].(map[string]any)
				for tk, tv := range ct {
					if ex.TagKeys[tk] && dt[tk] != tv {
						return "embedded-tag-not-on-disk", fmt.Sprintf("%s.audit.json shows the tag %s=%v on its ancestor %s, whose own audit file on disk has the tags %v", strings.TrimPrefix(owner, "/work/"), tk, tv, k, dt)
					}
				}
			}
			if c, d := walk(owner, child); c != "" {
				return c, d
			}
		}
		return "", ""
	}
	for _, owner := range sortedKeys(parsed) {
		if c, d := walk(owner, parsed[owner]); c != "" {
			return c, d
		}
	}
	return "", ""
}

// taggedRecord: is the record of the file at abs one that a tagging component
// mutates (the file itself or a sibling output of the same task is tagged)?
func taggedRecord(ex *Expect, abs string) bool {
	if len(ex.Attached[abs]) > 0 {
		return true
	}
	lin := ex.Lins[abs]
	if lin == nil {
		return false
	}
	for p := range ex.Attached {
		if ex.Lins[p] == lin {
			return true
		}
	}
	return false
}

// stripTaggerTags returns a copy of a decoded audit record without the tags
// that tagging components attach.
func stripTaggerTags(v any, ex *Expect) any {
	m, ok := v.(map[string]any)
	if !ok {
		return v
	}
	out := map[string]any{}
	for k, x := range m {
		switch k {
		case "Tags":
			tm, _ := x.(map[string]any)
			nt := map[string]any{}
			for tk, tv := range tm {
				if !ex.TagKeys[tk] {
					nt[tk] = tv
				}
			}
			out[k] = nt
		case "Upstream":
			um, _ := x.(map[string]any)
			nu := map[string]any{}
			for uk, uv := range um {
				nu[uk] = stripTaggerTags(uv, ex)
			}
			out[k] = nu
		default:
			out[k] = x
		}
	}
	return out
}

func firstDiff(a, b any, path string) string {
	ma, oka := a.(map[string]any)
	mb, okb := b.(map[string]any)
	if oka && okb {
		for _, k := range sortedKeys(ma) {
			if _, ok := mb[k]; !ok {
				return path + "/" + k + " (missing in new record)"
			}
			if !jsonEqual(ma[k], mb[k]) {
				return firstDiff(ma[k], mb[k], path+"/"+k)
			}
		}
		for _, k := range sortedKeys(mb) {
			if _, ok := ma[k]; !ok {
				return path + "/" + k + " (only in new record)"
			}
		}
	}
	x, _ := json.Marshal(a)
	y, _ := json.Marshal(b)
	return fmt.Sprintf("%s: %s vs %s", path, clip2(x), clip2(y))
}

func clip2(b []byte) string {
	if len(b) > 400 {
		return string(b[:400]) + "..."
	}
	return string(b)
}

func jsonEqual(a, b any) bool {
	x, _ := json.Marshal(a)
	y, _ := json.Marshal(b)
	return string(x) == string(y)
}

func init() {
	Register(&Check{ID: "C11", Level: "fault_enumeration",
		Rule: "one case = one generated workflow and one of three ways, tape-chosen, of splitting its execution over several incarnations on one persistent fs: (a) RunTo(tape-chosen prefix targets) then Run; (b) for the sampled schedule EVERY distinct crash state: kill there, cleanup, re-run (states in which the re-run does not complete are C03's business and skipped here); (c) complete run, delete a tape-chosen set of outputs with their audit files, re-run; (d) up to four further rounds of (c) inside ONE simulated process, library globals not re-initialised. Oracle after each history: every output's audit file equals the reference lineage (= the uninterrupted result: process, command, parameters, tags, output paths of every ancestor, recursively), and every nested ancestor record whose audit file was on disk before the resuming incarnation is identical (ids, time stamps and all) to that file - which exercises scipipe's own write -> read -> embed -> write path. Round 5: at the end of each history the record on disk of every tagged file holds the tag. Round 6: one case in twelve is a program with two workflows built up front and run in sequence (the second reads the first one's tagged files through a FileSource), split by RunTo or a kill. Round 7: tags embedded in descendants vs the ancestor file in every crash state of the tagger histories. distinct = event-log hash of the history; non-trivial = >=2 tasks, >=1 non-default choice",
		Run: func(c *Case) Verdict {
			if c.Tape.Choose(simrt.StGen, 12, 0) == 1 {
				return stagedCase(c)
			}
			mode := c.Tape.Choose(simrt.StGen, 4, 0)
			prof := profC11
			if mode == 1 {
				// crash histories also with tagging components: they re-write the audit
				// file of an EXISTING output, so a kill can land inside that re-write
				prof.Taggers = true
			}
			w := Generate(c.Tape, crashTierProfile(prof, c.Tier))
			for i := range w.Nodes {
				if n := &w.Nodes[i]; n.Kind == KProc && n.Custom == 0 && n.JoinMod == "" && c.Tape.Choose(simrt.StGen, 5, 0) == 1 {
					n.Note = []string{"100%", "%s_%d", "rate=5%v"}[c.Tape.Choose(simrt.StGen, 3, 0)]
				}
			}
			if mode != 1 && c.Tape.Choose(simrt.StGen, 4, 0) == 1 {
				// a command that re-writes its input in place (an index update, sort -o):
				// the input's bytes stay, its mtime becomes later than its audit file's
				for i := range w.Nodes {
					if n := &w.Nodes[i]; n.Kind == KProc && n.Custom == 0 && len(n.Ins) > 0 && !n.Ins[0].Join && c.Tape.Choose(simrt.StGen, 2, 0) == 1 {
						n.TouchIn = true
					}
				}
			}
			ex := Eval(w)
			var existed map[string]bool
			check := func(final *simrt.Inode, before map[string]map[string]any, incs ...*Inc) Verdict {
				if v := auditOracle(final, ex, instsByKey(incs...)); v.Status != "ok" {
					return v
				}
				if cl, d := ancestorsIdentical(final, before, ex, existed); cl != "" {
					return Viol(cl, "", "%s", d)
				}
				// (what a tagging component attached is on disk too: reading back loses nothing)
				return taggedOnDiskOracle(final, ex)
			}
			switch mode {
			case 0: // RunTo prefix, then Run
				var procs []string
				for _, n := range w.Nodes {
					if n.Kind == KProc && len(n.Outs) > 0 {
						procs = append(procs, n.Name)
					}
				}
				if len(procs) < 2 {
					c.Probe("trivial-case")
					return OK()
				}
				w1 := *w
				w1.RunTo = []string{procs[c.Tape.Choose(simrt.StGen, len(procs)-1, 0)]}
				c.Sample = fmt.Sprintf("RunTo(%v) then Run: %s", w1.RunTo, sample(w))
				c.Fault("split-by-runto")
				inc1 := RunInc(&w1, c.Tape, nil, 0, IncOpts{KillAt: -1, Strategy: strategyOf(c.Tape), Trace: c.Trace})
				c.Absorb(inc1)
				if v := flowOracle(inc1, Eval(&w1)); v.Status != "ok" {
					return foreign(v)
				}
				before := auditFilesOf(inc1.Sim.FS.Root, ex)
				inc2 := RunInc(w, c.Tape, inc1.Sim.FS.Root, inc1.Sim.FS.NextIno, IncOpts{KillAt: -1, Strategy: strategyOf(c.Tape), Trace: c.Trace})
				c.Absorb(inc2)
				if v, ok := inconclusiveEnd(inc2); ok {
					return v
				}
				if !completedOK(inc2) {
					return Skipped(Viol("resume-no-completion", "end="+inc2.Sim.End.String(), "Run after RunTo%v does not complete: %s", w1.RunTo, endDesc(inc2)))
				}
				if cl, d := checkFinalFiles(inc2.Sim.FS.Root, ex, false); cl != "" {
					return Skipped(Viol(cl, "", "after RunTo%v + Run: %s", w1.RunTo, d))
				}
				return check(inc2.Sim.FS.Root, before, inc1, inc2)
			case 1: // every crash state
				c.Sample = "kill at every crash state, cleanup, re-run: " + sample(w)
				inc := RunInc(w, c.Tape, nil, 0, IncOpts{KillAt: -1, Strategy: strategyOf(c.Tape), Trace: c.Trace, Snapshots: true})
				c.Absorb(inc)
				if v := flowOracle(inc, ex); v.Status != "ok" {
					return foreign(v)
				}
				shared := taggerSharesRecord(w)
				for _, sn := range inc.Snaps {
					c.CrashStates++
					c.Fault("kill@state")
					if !shared && ex.Tagged {
						// crash consistency of the records themselves: whatever tag a record on
						// disk shows for one of its ancestors, the ancestor's own audit file on
						// disk shows too (a tagging component writes before it passes a file on)
						if cl, d := embeddedTagsOnDisk(sn.Root, ex); cl != "" {
							return Viol(cl, "", "killed after fs operation #%d (%s %s): %s", sn.JSeq, sn.Entry.Op, strings.TrimPrefix(sn.Entry.Path, "/work/"), d)
						}
					}
					if c.Tape.Choose(simrt.StKill, 4, 0) == 1 && len(Leftovers(sn.Root)) > 0 {
						// re-run WITHOUT cleanup: refusing is the expected outcome (C03); if it
						// does complete, what it produced must carry the full lineage all the same
						incN := RunInc(w, c.Tape, sn.Root, sn.NextIno, IncOpts{KillAt: -1, Strategy: strategyOf(c.Tape), Trace: c.Trace})
						c.Absorb(incN)
						c.Fault("rerun-without-cleanup")
						if completedOK(incN) {
							if cl, _ := checkFinalFiles(incN.Sim.FS.Root, ex, true); cl == "" || cl == "tmp-left" {
								if v := auditOracle(incN.Sim.FS.Root, ex, instsByKey(inc, incN)); v.Status != "ok" {
									v.Detail = fmt.Sprintf("killed after fs operation #%d (%s %s), re-run without cleanup completed: %s", sn.JSeq, sn.Entry.Op, strings.TrimPrefix(sn.Entry.Path, "/work/"), v.Detail)
									return v
								}
							}
						}
					}
					root := Cleanup(sn.Root)
					before := auditFilesOf(root, ex)
					inc2 := RunInc(w, c.Tape, root, sn.NextIno, IncOpts{KillAt: -1, Strategy: strategyOf(c.Tape), Trace: c.Trace})
					c.Absorb(inc2)
					if v, ok := inconclusiveEnd(inc2); ok {
						return v
					}
					if !completedOK(inc2) {
						c.Probe("state-skipped-rerun-incomplete")
						continue
					}
					if cl, _ := checkFinalFiles(inc2.Sim.FS.Root, ex, false); cl != "" {
						c.Probe("state-skipped-rerun-incomplete")
						continue
					}
					what := fmt.Sprintf("killed after fs operation #%d (%s %s), cleanup, re-run", sn.JSeq, sn.Entry.Op, strings.TrimPrefix(sn.Entry.Path, "/work/"))
					if v := check(inc2.Sim.FS.Root, before, inc, inc2); v.Status != "ok" {
						v.Detail = what + ": " + v.Detail
						return v
					}
				}
				return OK()
			case 3: // several rounds of "delete some results, run again" inside ONE process
				rounds := 1 + c.Tape.Choose(simrt.StGen, 4, 0)
				for r := 0; r < rounds; r++ {
					var del []string
					for _, t := range ex.Tasks {
						if len(t.Outs) == 0 || c.Tape.Choose(simrt.StGen, 2, 0) != 1 {
							continue
						}
						for _, p := range t.Outs {
							del = append(del, Abs(p))
						}
					}
					w.Rounds = append(w.Rounds, del)
				}
				c.Sample = fmt.Sprintf("%d further rounds (delete results, run again) in one process: %s", rounds, sample(w))
				c.Fault("in-process-rerun")
				inc := RunInc(w, c.Tape, nil, 0, IncOpts{KillAt: -1, Strategy: strategyOf(c.Tape), Trace: c.Trace})
				c.Absorb(inc)
				if v, ok := inconclusiveEnd(inc); ok {
					return v
				}
				if !completedOK(inc) {
					return Skipped(Viol("resume-no-completion", "end="+inc.Sim.End.String(), "re-running in one process does not complete: %s", endDesc(inc)))
				}
				if cl, d := checkFinalFiles(inc.Sim.FS.Root, ex, false); cl != "" {
					return Skipped(Viol(cl, "", "after %d in-process rounds: %s", rounds, d))
				}
				last := inc.RT.PreRound[len(inc.RT.PreRound)-1]
				before := auditFilesOf(last, ex)
				existed = map[string]bool{}
				for p := range ex.Files {
					if n := simrt.Find(last, p); n != nil {
						existed[p] = true
					}
				}
				return check(inc.Sim.FS.Root, before, inc)
			default: // delete downstream outputs, re-run
				c.Sample = "complete run, delete outputs, re-run: " + sample(w)
				inc := RunInc(w, c.Tape, nil, 0, IncOpts{KillAt: -1, Strategy: strategyOf(c.Tape), Trace: c.Trace})
				c.Absorb(inc)
				if v := flowOracle(inc, ex); v.Status != "ok" {
					return foreign(v)
				}
				root := inc.Sim.FS.Snapshot()
				deleted := 0
				for _, t := range ex.Tasks {
					if len(t.Outs) == 0 || c.Tape.Choose(simrt.StGen, 2, 0) != 1 {
						continue
					}
					// whole task: all its outputs and their audit files
					for _, p := range t.Outs {
						ap := Abs(p)
						dir := simrt.Find(root, ap[:strings.LastIndex(ap, "/")])
						if dir != nil {
							delete(dir.Ents, baseName(ap))
							delete(dir.Ents, baseName(ap)+".audit.json")
							deleted++
						}
					}
				}
				c.Fault("outputs-deleted")
				before := auditFilesOf(root, ex)
				inc2 := RunInc(w, c.Tape, root, inc.Sim.FS.NextIno, IncOpts{KillAt: -1, Strategy: strategyOf(c.Tape), Trace: c.Trace})
				c.Absorb(inc2)
				if v, ok := inconclusiveEnd(inc2); ok {
					return v
				}
				if !completedOK(inc2) {
					return Skipped(Viol("resume-no-completion", "end="+inc2.Sim.End.String(), "re-run after deleting %d output(s) does not complete: %s", deleted, endDesc(inc2)))
				}
				if cl, d := checkFinalFiles(inc2.Sim.FS.Root, ex, false); cl != "" {
					return Skipped(Viol(cl, "", "after deleting %d output(s) and re-running: %s", deleted, d))
				}
				return check(inc2.Sim.FS.Root, before, inc, inc2)
			}
		}})
}

// lazyTagCase: items whose audit record is loaded lazily (parts of a
// FileSplitter, output of a Concatenator) are fanned out to a tagging
// component and to other consumers at the same time; the tag must be present
// on every record downstream of the tagger, whoever touches the item first.
func lazyTagCase(c *Case) Verdict {
	w := lazyIPFanoutWF(c)
	hasTag := false
	for _, n := range w.Nodes {
		if n.Kind == KMapToTags {
			hasTag = true
		}
	}
	if !hasTag {
		c.Probe("trivial-case")
		return OK()
	}
	c.Sample = "lazy record + tagger: " + sample(w)
	inc := RunInc(w, c.Tape, nil, 0, IncOpts{KillAt: -1, Strategy: strategyOf(c.Tape), Trace: c.Trace})
	c.Absorb(inc)
	if v, ok := inconclusiveEnd(inc); ok {
		return v
	}
	if !completedOK(inc) {
		return Skipped(Viol("no-completion", "", "%s", endDesc(inc)))
	}
	root := inc.Sim.FS.Root
	wf6 := WorkFiles(root)
	for _, p := range sortedKeys(wf6) {
		e := wf6[p]
		if e.Kind != simrt.KFile || !strings.HasSuffix(p, ".use0.o0") {
			continue
		}
		r, err := readAudit(root, p)
		if err != nil {
			return Viol("audit-unreadable", "", "%v", err)
		}
		if len(r.Upstream) != 1 {
			return Viol("audit-upstream-keys", "", "%s.audit.json: Upstream keys %v, the task had exactly one input", p, sortedKeys(r.Upstream))
		}
		for in := range r.Upstream {
			if want := TagValue(in); r.Tags["kind"] != want {
				return Viol("audit-tags-lost", "", "%s.audit.json: tag kind=%s attached upstream (by the tagging component, to %s) is missing on this downstream record (Tags %v)", strings.TrimPrefix(p, "/work/"), want, in, r.Tags)
			}
		}
	}
	return OK()
}

// siblingTaggerIdleCase: an out-port fanned out to a tagging component (whose
// own output goes straight to the sink) and to an ordinary process, on an idle
// machine (the clock advances only when nothing can run; commands last >= 1 ms):
// the component has attached its tag - zero-time work, nothing downstream can
// hold it up - long before the sibling task's command ends, so the record that
// task writes at the end carries the tag, in its own Tags and under Upstream.
// (Elsewhere the sibling may or may not see the tag: known findings F-C04-1 /
// F-C12-1.)
func siblingTaggerIdleCase(c *Case) Verdict {
	t := c.Tape
	w := &WF{Name: "wf", Sources: map[string]string{}, MaxTasks: 2 + t.Choose(simrt.StGen, 3, 0), Bufsize: bufsizeOf(t)}
	e := Edge{srcNode(w, "src0", 1+t.Choose(simrt.StGen, 3, 0), ""), "out"}
	if t.Choose(simrt.StGen, 2, 0) == 1 {
		e = Edge{oneToOne(w, "pre", e), "o0"}
	}
	tg := addNode(w, Node{Name: "tagk", Kind: KMapToTags, TagKey: "kind",
		Ins: []InSpec{{Name: "in", From: []Edge{e}}}, Outs: []OutSpec{{Name: "out"}}})
	sl := oneToOne(w, "slow", e)
	if t.Choose(simrt.StGen, 2, 0) == 1 {
		oneToOne(w, "after", Edge{sl, "o0"})
	}
	c.Sample = "sibling of a tagger on an idle machine: " + sample(w)
	c.Probe("sibling-of-tagger-idle-machine")
	inc := RunInc(w, c.Tape, nil, 0, IncOpts{KillAt: -1, Strategy: strategyOf(c.Tape), Trace: c.Trace, NoEarlyTimers: true, MinDur: 1e6})
	c.Absorb(inc)
	if v, ok := inconclusiveEnd(inc); ok {
		return v
	}
	if !completedOK(inc) {
		return Skipped(Viol("no-completion", "", "%s", endDesc(inc)))
	}
	root := inc.Sim.FS.Root
	for _, tk := range Eval(w).Tasks {
		if tk.Proc != "slow" && tk.Proc != "after" {
			continue
		}
		in := tk.Ins["a"].Path
		for in != "" && strings.HasSuffix(in, ".slow.o0") {
			in = strings.TrimSuffix(in, ".slow.o0")
		}
		want := tagValueFor(&w.Nodes[tg], in)
		p := Abs(tk.Outs["o0"])
		r, err := readAudit(root, p)
		if err != nil {
			return Viol("audit-unreadable", "", "%v", err)
		}
		if r.Tags["kind"] != want {
			return Viol("audit-tags-lost", "idle-machine", "%s.audit.json: the tag kind=%s, attached to %s by a tagging component long before this task's command ended (idle machine), is missing from the record's own Tags %v", strings.TrimPrefix(p, "/work/"), want, in, r.Tags)
		}
	}
	_ = tg
	return OK()
}

// siblingTaggerCase: the outputs of ONE task (they share one audit record in
// memory) are tagged with the SAME key and value - by a tagging component per
// out-port, or by one component that receives both out-ports. Every tagged
// file's record on disk, and every downstream record, must hold the tag: the
// second component must not conclude from the shared in-memory record that
// there is nothing left to write.
// conflictingTagCase: two tagging components in a row attach DIFFERENT values
// under the same key to a file. A record holds one value per key, so it cannot
// be complete: a workflow that reports completion has dropped one of the two
// values from the record without telling anybody (the library refuses the
// second value and stops, which is fine).
func conflictingTagCase(c *Case) Verdict {
	t := c.Tape
	w := &WF{Name: "wf", Sources: map[string]string{}, MaxTasks: 1 + t.Choose(simrt.StGen, 4, 0), Bufsize: bufsizeOf(t)}
	e := Edge{srcNode(w, "src0", 1+t.Choose(simrt.StGen, 3, 0), ""), "out"}
	if t.Choose(simrt.StGen, 2, 0) == 1 {
		e = Edge{oneToOne(w, "pre", e), "o0"}
	}
	ta := addNode(w, Node{Name: "taga", Kind: KMapToTags, TagKey: "sample",
		Ins: []InSpec{{Name: "in", From: []Edge{e}}}, Outs: []OutSpec{{Name: "out"}}})
	e = Edge{ta, "out"}
	if t.Choose(simrt.StGen, 2, 0) == 1 {
		e = Edge{oneToOne(w, "mid", e), "o0"} // (its output inherits sample from its input)
	}
	tb := addNode(w, Node{Name: "tagb", Kind: KMapToTags, TagKey: "sample", TagGroups: 1,
		Ins: []InSpec{{Name: "in", From: []Edge{e}}}, Outs: []OutSpec{{Name: "out"}}})
	oneToOne(w, "use", Edge{tb, "out"})
	c.Sample = "two taggers, one key, different values: " + sample(w)
	c.Probe("conflicting-tag-values")
	inc := RunInc(w, c.Tape, nil, 0, IncOpts{KillAt: -1, Strategy: strategyOf(c.Tape), Trace: c.Trace})
	c.Absorb(inc)
	c.Tasks = max(c.Tasks, 2)
	if v, ok := inconclusiveEnd(inc); ok {
		return v
	}
	if inc.Sim.End == simrt.EndDeadlock {
		return Skipped(Viol("deadlock", "", "%s", endDesc(inc)))
	}
	if !completedOK(inc) {
		return OK() // (refused: the library stops at the second value)
	}
	// completed: the records of the files made downstream of both taggers must
	// hold both attached values (out-IPs inherit the tags of their in-IPs)
	wf7 := WorkFiles(inc.Sim.FS.Root)
	for _, pth := range sortedKeys(wf7) {
		e := wf7[pth]
		if e.Kind != simrt.KFile || !strings.HasSuffix(pth, ".use.o0.audit.json") {
			continue
		}
		r, err := readAudit(inc.Sim.FS.Root, strings.TrimSuffix(pth, ".audit.json"))
		if err != nil {
			return Viol("audit-unreadable", "", "%v", err)
		}
		hasA, hasB := false, false
		for _, v := range r.Tags {
			if strings.HasPrefix(v, "t_") {
				hasA = true
			}
			if v == "g0" {
				hasB = true
			}
		}
		if !hasA || !hasB {
			return Viol("audit-tag-lost", "conflicting-values", "%s: two tagging components upstream attached sample=t_... and sample=g0; the workflow reports completion and the record holds %v: a tag attached upstream is not present on the downstream record", strings.TrimPrefix(pth, "/work/"), r.Tags)
		}
	}
	return OK()
}

func siblingTaggerCase(c *Case) Verdict {
	t := c.Tape
	w := &WF{Name: "wf", Sources: map[string]string{}, MaxTasks: 1 + t.Choose(simrt.StGen, 4, 0), Bufsize: bufsizeOf(t)}
	e := Edge{srcNode(w, "src0", 1+t.Choose(simrt.StGen, 3, 0), ""), "out"}
	if t.Choose(simrt.StGen, 2, 0) == 1 {
		e = Edge{oneToOne(w, "pre", e), "o0"}
	}
	nout := 2 + t.Choose(simrt.StGen, 2, 0)
	p0 := Node{Name: "p0", Kind: KProc, Cores: 1, Ins: []InSpec{{Name: "a", From: []Edge{e}}}}
	for i := 0; i < nout; i++ {
		p0.Outs = append(p0.Outs, OutSpec{Name: fmt.Sprintf("o%d", i), Pattern: fmt.Sprintf("{i:a}.p0.o%d", i)})
	}
	pi := addNode(w, p0)
	oneTagger := t.Choose(simrt.StGen, 3, 0) == 1
	var tagged []Edge
	if oneTagger {
		var from []Edge
		for i := 0; i < nout; i++ {
			from = append(from, Edge{pi, fmt.Sprintf("o%d", i)})
		}
		tg := addNode(w, Node{Name: "tag", Kind: KMapToTags, TagKey: "sample", TagGroups: 1,
			Ins: []InSpec{{Name: "in", From: from}}, Outs: []OutSpec{{Name: "out"}}})
		tagged = append(tagged, Edge{tg, "out"})
	} else {
		for i := 0; i < nout; i++ {
			tg := addNode(w, Node{Name: fmt.Sprintf("tag%d", i), Kind: KMapToTags, TagKey: "sample", TagGroups: 1,
				Ins: []InSpec{{Name: "in", From: []Edge{{pi, fmt.Sprintf("o%d", i)}}}}, Outs: []OutSpec{{Name: "out"}}})
			tagged = append(tagged, Edge{tg, "out"})
		}
	}
	for i, te := range tagged {
		oneToOne(w, fmt.Sprintf("use%d", i), te)
	}
	c.Sample = "sibling outputs tagged alike: " + sample(w)
	c.Probe("sibling-outputs-tagged-alike")
	ex := Eval(w)
	inc := RunInc(w, c.Tape, nil, 0, IncOpts{KillAt: -1, Strategy: strategyOf(c.Tape), Trace: c.Trace})
	c.Absorb(inc)
	if v, ok := inconclusiveEnd(inc); ok {
		return v
	}
	if !completedOK(inc) {
		return Skipped(Viol("no-completion", "", "%s", endDesc(inc)))
	}
	root := inc.Sim.FS.Root
	if v := taggedOnDiskOracle(root, ex); v.Status != "ok" {
		return v
	}
	wf8 := WorkFiles(root)
	for _, p := range sortedKeys(wf8) {
		e := wf8[p]
		if e.Kind != simrt.KFile || !strings.Contains(baseName(p), ".use") || strings.HasSuffix(p, ".audit.json") {
			continue
		}
		r, err := readAudit(root, p)
		if err != nil {
			return Viol("audit-unreadable", "", "%v", err)
		}
		if r.Tags["sample"] != "g0" {
			return Viol("audit-tags-lost", "", "%s.audit.json: tag sample=g0 attached upstream is missing on this downstream record (Tags %v)", strings.TrimPrefix(p, "/work/"), r.Tags)
		}
		for in, up := range r.Upstream {
			if up == nil || up.Tags["sample"] != "g0" {
				return Viol("audit-tags-lost", "", "%s.audit.json: Upstream[%s] lacks the tag sample=g0 that was attached to that file", strings.TrimPrefix(p, "/work/"), in)
			}
		}
	}
	return OK()
}

// stagedCase: one program with TWO workflows, both built up front: the first
// makes files and tags them, the second (run after the first has returned)
// reads those files through a FileSource and derives results from them. The
// execution is split: a first invocation of the program stops after the making
// process (RunTo), or is killed at a crash state; the second invocation runs
// everything. The records of the second workflow's results must carry the
// same lineage - tags included - as after an uninterrupted run.
func stagedCase(c *Case) Verdict {
	t := c.Tape
	w := &WF{Name: "wf", Sources: map[string]string{}, MaxTasks: 1 + t.Choose(simrt.StGen, 3, 0), Bufsize: bufsizeOf(t)}
	n := 1 + t.Choose(simrt.StGen, 3, 0)
	mk := oneToOne(w, "mk", Edge{srcNode(w, "src0", n, ""), "out"})
	tg := addNode(w, Node{Name: "tagS", Kind: KMapToTags, TagKey: "sample",
		Ins: []InSpec{{Name: "in", From: []Edge{{mk, "o0"}}}}, Outs: []OutSpec{{Name: "out"}}})
	if t.Choose(simrt.StGen, 2, 0) == 1 {
		oneToOne(w, "mid", Edge{tg, "out"})
	}
	src2 := Node{Name: "src2", Kind: KFileSrc, Stage: 1}
	for _, tk := range Eval(w).Tasks {
		if tk.Proc == "mk" {
			src2.Files = append(src2.Files, tk.Outs["o0"])
		}
	}
	s2 := addNode(w, src2)
	y := oneToOne(w, "y", Edge{s2, "out"})
	w.Nodes[y].Stage = 1
	ex := Eval(w)
	c.Probe("two-workflows-built-up-front")
	var final *simrt.Inode
	var incs []*Inc
	if t.Choose(simrt.StGen, 2, 0) == 1 {
		w1 := *w
		w1.RunTo = []string{"mk"}
		c.Sample = "first invocation RunTo(mk), second runs both workflows: " + sample(w)
		inc1 := RunInc(&w1, c.Tape, nil, 0, IncOpts{KillAt: -1, Strategy: strategyOf(c.Tape), Trace: c.Trace})
		c.Absorb(inc1)
		if v, ok := inconclusiveEnd(inc1); ok {
			return v
		}
		if !completedOK(inc1) {
			return Skipped(Viol("no-completion", "", "RunTo(mk): %s", endDesc(inc1)))
		}
		inc2 := RunInc(w, c.Tape, inc1.Sim.FS.Root, inc1.Sim.FS.NextIno, IncOpts{KillAt: -1, Strategy: strategyOf(c.Tape), Trace: c.Trace})
		c.Absorb(inc2)
		incs, final = []*Inc{inc1, inc2}, inc2.Sim.FS.Root
		if v, ok := inconclusiveEnd(inc2); ok {
			return v
		}
		if !completedOK(inc2) {
			return Skipped(Viol("resume-no-completion", "", "%s", endDesc(inc2)))
		}
	} else {
		c.Sample = "killed at a crash state, cleanup, run again: " + sample(w)
		inc1 := RunInc(w, c.Tape, nil, 0, IncOpts{KillAt: -1, Strategy: strategyOf(c.Tape), Trace: c.Trace, SnapOne: 1 + uint64(c.Tape.Choose(simrt.StKill, 1<<20, 0))})
		c.Absorb(inc1)
		if v, ok := inconclusiveEnd(inc1); ok {
			return v
		}
		if !completedOK(inc1) || len(inc1.Snaps) == 0 {
			return Skipped(Viol("no-completion", "", "%s", endDesc(inc1)))
		}
		sn := inc1.Snaps[0]
		c.Fault("kill@state")
		inc2 := RunInc(w, c.Tape, Cleanup(sn.Root), sn.NextIno, IncOpts{KillAt: -1, Strategy: strategyOf(c.Tape), Trace: c.Trace})
		c.Absorb(inc2)
		incs, final = []*Inc{inc1, inc2}, inc2.Sim.FS.Root
		if v, ok := inconclusiveEnd(inc2); ok {
			return v
		}
		if !completedOK(inc2) {
			return Skipped(Viol("resume-no-completion", "", "%s", endDesc(inc2)))
		}
	}
	c.Tasks = max(c.Tasks, 2)
	if cl, d := checkFinalFiles(final, ex, false); cl != "" {
		return Skipped(Viol(cl, "", "%s", d))
	}
	if v := auditOracle(final, ex, instsByKey(incs...)); v.Status != "ok" {
		return v
	}
	return taggedOnDiskOracle(final, ex)
}

// globDepCase: a dependent FileGlobber picks up the outputs of an upstream
// process; records of files derived from the globbed files must reach back
// through the globbed files to their producers.
func globDepWF(c *Case) *WF {
	t := c.Tape
	w := &WF{Name: "wf", Sources: map[string]string{}, MaxTasks: 1 + t.Choose(simrt.StGen, 3, 0), Bufsize: bufsizeOf(t)}
	n := 1 + t.Choose(simrt.StGen, 4, 0)
	var vals, files []string
	for i := 0; i < n; i++ {
		vals = append(vals, fmt.Sprintf("v%d", i))
		files = append(files, fmt.Sprintf("gen_v%d.dat", i))
	}
	src := srcNode(w, "src0", 1, "")
	gen := addNode(w, Node{Name: "gen", Kind: KProc, Cores: 1,
		Params: []ParamSpec{{Name: "x", Vals: vals}},
		Outs:   []OutSpec{{Name: "o0", Pattern: "gen_{p:x}.dat"}}})
	sort.Strings(files)
	g := addNode(w, Node{Name: "glob", Kind: KGlobber, Globs: []string{"gen_*.dat"}, Files: files,
		Ins: []InSpec{{Name: "in_dep", From: []Edge{{gen, "o0"}}}}, Outs: []OutSpec{{Name: "out"}}})
	u := oneToOne(w, "use", Edge{g, "out"})
	if t.Choose(simrt.StGen, 2, 0) == 1 {
		oneToOne(w, "use2", Edge{u, "o0"})
	}
	oneToOne(w, "other", Edge{src, "out"})
	return w
}

func globDepCase(c *Case) Verdict {
	w := globDepWF(c)
	c.Sample = "dependent globber: " + sample(w)
	ex := Eval(w)
	inc := RunInc(w, c.Tape, nil, 0, IncOpts{KillAt: -1, Strategy: strategyOf(c.Tape), Trace: c.Trace})
	c.Absorb(inc)
	if v := flowOracle(inc, ex); v.Status != "ok" {
		return foreign(v)
	}
	return auditOracle(inc.Sim.FS.Root, ex, instsByKey(inc))
}
