#!/bin/bash
# dev helper: instrument /repo (or $1) into a scratch dir, build the worker into bin/worker
set -e
export GOFLAGS=-mod=mod GOPROXY=off GOSUMDB=off GOTOOLCHAIN=local
REPO=${1:-/repo}
S=$(mktemp -d /tmp/vinst.XXXXXX)
trap 'rm -rf "$S"' EXIT
go build -o bin/rewriter ./rewriter
./bin/rewriter $REPO $S/scipipe /verif
cat > $S/verif.mod <<EOM
module verif

go 1.21

require github.com/scipipe/scipipe v0.0.0

replace github.com/scipipe/scipipe => $S/scipipe
EOM
: > $S/verif.sum
go build -modfile=$S/verif.mod -o bin/worker ./harness/worker
