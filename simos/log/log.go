// Package log: a Logger with the standard library's surface whose Fatal*
// end the simulated program instead of the worker process, whose time stamps
// come from the simulated clock, and whose internal mutex is a simulated one
// (so that it contributes the happens-before edges a real logger would).
package log

import (
	"fmt"
	"io"
	real "log"

	"verif/simrt"
)

const (
	Ldate         = real.Ldate
	Ltime         = real.Ltime
	Lmicroseconds = real.Lmicroseconds
	Llongfile     = real.Llongfile
	Lshortfile    = real.Lshortfile
	LUTC          = real.LUTC
	Lmsgprefix    = real.Lmsgprefix
	LstdFlags     = real.LstdFlags
)

type Logger struct {
	mu     simrt.Mutex
	out    io.Writer
	prefix string
	flags  int
}

func New(out io.Writer, prefix string, flag int) *Logger {
	return &Logger{out: out, prefix: prefix, flags: flag}
}

var std = New(io.Discard, "", LstdFlags)

func Default() *Logger { return std }

func (l *Logger) SetOutput(w io.Writer) { l.out = w }
func (l *Logger) SetPrefix(p string)    { l.prefix = p }
func (l *Logger) SetFlags(f int)        { l.flags = f }
func (l *Logger) Writer() io.Writer     { return l.out }
func (l *Logger) Prefix() string        { return l.prefix }
func (l *Logger) Flags() int            { return l.flags }

func (l *Logger) Output(calldepth int, s string) error {
	if l.out == io.Discard {
		return nil
	}
	inSim := simrt.S != nil && simrt.S.Cur() != nil
	if inSim {
		l.mu.Lock()
		defer l.mu.UnlockQuiet()
	}
	if len(s) == 0 || s[len(s)-1] != '\n' {
		s += "\n"
	}
	_, err := l.out.Write([]byte(l.prefix + s))
	return err
}

func (l *Logger) Printf(f string, v ...any) { l.Output(2, fmt.Sprintf(f, v...)) }
func (l *Logger) Print(v ...any)            { l.Output(2, fmt.Sprint(v...)) }
func (l *Logger) Println(v ...any)          { l.Output(2, fmt.Sprintln(v...)) }
func (l *Logger) Fatal(v ...any)            { l.Output(2, fmt.Sprint(v...)); simrt.S.Exit(1) }
func (l *Logger) Fatalf(f string, v ...any) { l.Output(2, fmt.Sprintf(f, v...)); simrt.S.Exit(1) }
func (l *Logger) Fatalln(v ...any)          { l.Output(2, fmt.Sprintln(v...)); simrt.S.Exit(1) }
func (l *Logger) Panic(v ...any)            { s := fmt.Sprint(v...); l.Output(2, s); panic(s) }
func (l *Logger) Panicf(f string, v ...any) { s := fmt.Sprintf(f, v...); l.Output(2, s); panic(s) }
func (l *Logger) Panicln(v ...any)          { s := fmt.Sprintln(v...); l.Output(2, s); panic(s) }

func Printf(f string, v ...any) { std.Printf(f, v...) }
func Print(v ...any)            { std.Print(v...) }
func Println(v ...any)          { std.Println(v...) }
func Fatal(v ...any)            { std.Fatal(v...) }
func Fatalf(f string, v ...any) { std.Fatalf(f, v...) }
func Fatalln(v ...any)          { std.Fatalln(v...) }
func Panic(v ...any)            { std.Panic(v...) }
func Panicf(f string, v ...any) { std.Panicf(f, v...) }
func SetOutput(w io.Writer)     { std.SetOutput(w) }
func SetFlags(f int)            { std.SetFlags(f) }
func SetPrefix(p string)        { std.SetPrefix(p) }
