package filepath

import (
	iofs "io/fs"
	real "path/filepath"
	"strings"

	"verif/simrt"
)

const (
	Separator     = '/'
	ListSeparator = ':'
)

var (
	ErrBadPattern = real.ErrBadPattern
	SkipDir       = iofs.SkipDir
	SkipAll       = iofs.SkipAll
)

type WalkFunc = real.WalkFunc

func Dir(p string) string             { return real.Dir(p) }
func Base(p string) string            { return real.Base(p) }
func Join(e ...string) string         { return real.Join(e...) }
func Clean(p string) string           { return real.Clean(p) }
func Ext(p string) string             { return real.Ext(p) }
func Split(p string) (string, string) { return real.Split(p) }
func IsAbs(p string) bool             { return real.IsAbs(p) }
func Rel(b, t string) (string, error) { return real.Rel(b, t) }
func Match(p, n string) (bool, error) { return real.Match(p, n) }
func ToSlash(p string) string         { return p }
func FromSlash(p string) string       { return p }
func VolumeName(p string) string      { return "" }
func SplitList(p string) []string     { return real.SplitList(p) }
func Abs(p string) (string, error) {
	if strings.HasPrefix(p, "/") {
		return real.Clean(p), nil
	}
	return real.Join(simrt.S.FS.Cwd, p), nil
}
func Glob(pattern string) ([]string, error) { return simrt.S.FS.GoGlob(pattern) }
func Walk(root string, fn WalkFunc) error {
	return simrt.S.FS.GoWalk(root, func(p string, i iofs.FileInfo, e error) error { return fn(p, i, e) })
}

func EvalSymlinks(p string) (string, error) { return real.Clean(p), nil }

type walkDirEntry struct{ fi iofs.FileInfo }

func (d walkDirEntry) Name() string                 { return d.fi.Name() }
func (d walkDirEntry) IsDir() bool                  { return d.fi.IsDir() }
func (d walkDirEntry) Type() iofs.FileMode          { return d.fi.Mode().Type() }
func (d walkDirEntry) Info() (iofs.FileInfo, error) { return d.fi, nil }

func WalkDir(root string, fn iofs.WalkDirFunc) error {
	return simrt.S.FS.GoWalk(root, func(p string, i iofs.FileInfo, e error) error {
		if i == nil {
			return fn(p, nil, e)
		}
		return fn(p, walkDirEntry{i}, e)
	})
}
