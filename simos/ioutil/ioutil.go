package ioutil

import (
	"io"
	iofs "io/fs"

	"verif/simrt"
)

var Discard = io.Discard

func ReadAll(r io.Reader) ([]byte, error)          { return io.ReadAll(r) }
func NopCloser(r io.Reader) io.ReadCloser          { return io.NopCloser(r) }
func ReadFile(name string) ([]byte, error)         { return simrt.S.FS.GoReadFile(name) }
func ReadDir(name string) ([]iofs.FileInfo, error) { return simrt.S.FS.GoReadDir(name) }
func WriteFile(name string, data []byte, perm iofs.FileMode) error {
	return simrt.S.FS.GoWriteFile(name, data)
}
func TempFile(dir, pattern string) (*simrt.File, error) { return simrt.S.FS.GoTempFile(dir, pattern) }

func TempDir(dir, pattern string) (string, error) {
	f, err := simrt.S.FS.GoTempFile(dir, pattern)
	if err != nil {
		return "", err
	}
	name := f.Name()
	if err := simrt.S.FS.GoRemove(name); err != nil {
		return "", err
	}
	return name, simrt.S.FS.GoMkdir(name)
}
