// Package exec is the drop-in replacement for "os/exec" inside the
// instrumented copy: commands run on the simulated shell.
package exec

import (
	"time"
	"bytes"
	"errors"
	"io"
	"strconv"
	"strings"

	"verif/simrt"
)

var ErrNotFound = errors.New("executable file not found in $PATH")

// ErrWaitDelay as in os/exec (Go 1.20).
var ErrWaitDelay = simrt.ErrWaitDelay

// ProcessState mirrors os.ProcessState for the parts code can observe.
type ProcessState struct {
	code   int
	signal string
}

func (p *ProcessState) ExitCode() int {
	if p == nil {
		return -1
	}
	if p.signal != "" {
		return -1
	}
	return p.code
}
func (p *ProcessState) Success() bool { return p != nil && p.signal == "" && p.code == 0 }
func (p *ProcessState) Exited() bool  { return p != nil && p.signal == "" }
func (p *ProcessState) Pid() int      { return 4243 }
func (p *ProcessState) String() string {
	if p == nil {
		return "<nil>"
	}
	if p.signal != "" {
		return "signal: " + p.signal
	}
	return "exit status " + strconv.Itoa(p.code)
}

type ExitError struct {
	*ProcessState
	Stderr []byte
}

func (e *ExitError) Error() string { return e.ProcessState.String() }

type Process struct{ Pid int }

func (p *Process) Kill() error { return nil }

type Cmd struct {
	Path         string
	Args         []string
	Env          []string
	Dir          string
	Stdin        io.Reader
	Stdout       io.Writer
	Stderr       io.Writer
	ProcessState *ProcessState
	Process      *Process
	WaitDelay    time.Duration // as in os/exec (Go 1.20): how long to wait for children holding the output pipe
	started      bool
	out          []byte
	err          error
	pipes        []*pipe // StdoutPipe / StderrPipe: closed by Wait, as os/exec does
	child        *childState
}

func Command(name string, arg ...string) *Cmd {
	return &Cmd{Path: name, Args: append([]string{name}, arg...)}
}

func LookPath(file string) (string, error) { return "/usr/bin/" + file, nil }

func (c *Cmd) String() string { return strings.Join(c.Args, " ") }

func (c *Cmd) script() string {
	b := c.Path
	if i := strings.LastIndex(b, "/"); i >= 0 {
		b = b[i+1:]
	}
	if (b == "bash" || b == "sh") && len(c.Args) == 3 && (c.Args[1] == "-c" || c.Args[1] == "-lc") {
		return c.Args[2]
	}
	if b != "bash" && b != "sh" {
		// a command started directly: the mini shell knows a few
		return strings.Join(c.Args, " ")
	}
	if len(c.Args) == 2 && !strings.HasPrefix(c.Args[1], "-") {
		// bash SCRIPTFILE: the script is read from the (simulated) file
		data, err := simrt.S.FS.GoReadFile(c.Args[1])
		if err != nil {
			return "exit 127"
		}
		return string(data)
	}
	simrt.S.HarnessFail("exec of " + strings.Join(c.Args, " ") + " is not modelled")
	return ""
}

// viaPipe: does the caller collect stdout/stderr through a pipe (then Wait
// only returns once every child holding the write end has exited), or does
// the command write to plain files / nothing (then Wait returns when the
// shell exits, whatever its children still do)?
func (c *Cmd) viaPipe(collecting bool) bool {
	if collecting {
		return true
	}
	for _, w := range []io.Writer{c.Stdout, c.Stderr} {
		if w == nil {
			continue
		}
		if _, isFile := w.(*simrt.File); !isFile {
			return true
		}
	}
	return false
}

func (c *Cmd) exec() ([]byte, error) { return c.execMode(true) }

func (c *Cmd) execMode(collecting bool) ([]byte, error) {
	if c.Dir != "" {
		simrt.S.HarnessFail("exec with Cmd.Dir is not modelled")
	}
	var out []byte
	var err error
	if c.WaitDelay > 0 && c.viaPipe(collecting) {
		out, err = simrt.S.Shell.ExecDelay(c.script(), int64(c.WaitDelay))
	} else {
		out, err = simrt.S.Shell.ExecMode(c.script(), c.viaPipe(collecting))
	}
	c.ProcessState = &ProcessState{}
	if ee, ok := err.(*simrt.ExitError); ok {
		c.ProcessState = &ProcessState{code: ee.Code, signal: ee.Signal}
		return out, &ExitError{ProcessState: c.ProcessState}
	}
	return out, err
}

func (c *Cmd) CombinedOutput() ([]byte, error) {
	if c.Stdout != nil || c.Stderr != nil {
		return nil, errors.New("exec: Stdout already set")
	}
	return c.exec()
}

func (c *Cmd) Output() ([]byte, error) {
	if c.Stdout != nil {
		return nil, errors.New("exec: Stdout already set")
	}
	out, err := c.exec()
	if ee, ok := err.(*ExitError); ok {
		ee.Stderr = out
	}
	return out, err
}

func (c *Cmd) Run() error {
	if len(c.pipes) > 0 {
		if err := c.Start(); err != nil {
			return err
		}
		return c.Wait()
	}
	out, err := c.execMode(false)
	c.deliver(out)
	return err
}

// Start runs the command to completion at once (the simulated command is
// executed as micro-steps of the calling goroutine); Wait reports the result.
func (c *Cmd) Start() error {
	if len(c.pipes) > 0 {
		return c.startChild()
	}
	c.started = true
	c.Process = &Process{Pid: 4243}
	c.out, c.err = c.execMode(false)
	c.deliver(c.out)
	return nil
}

func (c *Cmd) Wait() error {
	if !c.started {
		return errors.New("exec: not started")
	}
	if c.child != nil {
		ch := c.child
		ch.mu.Lock()
		for !ch.done {
			ch.cond.Wait()
		}
		ch.mu.Unlock()
		// "Wait will close the pipe after seeing the command exit": whatever the
		// caller has not read by now is lost
		for _, p := range c.pipes {
			p.Close()
		}
	}
	return c.err
}

func (c *Cmd) deliver(out []byte) {
	if c.Stdout != nil {
		c.Stdout.Write(out)
	} else if c.Stderr != nil {
		c.Stderr.Write(out)
	}
}

var _ = bytes.NewBuffer

// CommandContext: the context is ignored (simulated commands cannot be cancelled from outside).
func CommandContext(ctx interface{ Done() <-chan struct{} }, name string, arg ...string) *Cmd {
	return Command(name, arg...)
}

// --- StdoutPipe / StderrPipe ----------------------------------------------------
//
// With a pipe the command is a child of its own (a simulated goroutine): it
// writes its output into the pipe (capacity 64 KiB, blocking when full) and
// exits; the parent reads concurrently. Built from the simulated Mutex/Cond,
// so every interleaving of reader, child and Wait is the scheduler's choice.

const pipeCapacity = 65536

type pipe struct {
	mu     simrt.Mutex
	cond   *simrt.Cond
	buf    []byte
	eof    bool // write end closed (child exited)
	closed bool // read end closed
}

func newPipe() *pipe {
	p := &pipe{}
	p.cond = simrt.NewCond(&p.mu)
	return p
}

func (p *pipe) Read(b []byte) (int, error) {
	p.mu.Lock()
	defer p.mu.Unlock()
	for len(p.buf) == 0 && !p.eof && !p.closed {
		p.cond.Wait()
	}
	if p.closed {
		return 0, errors.New("read |0: file already closed")
	}
	if len(p.buf) > 0 {
		n := copy(b, p.buf)
		p.buf = p.buf[n:]
		p.cond.Broadcast()
		return n, nil
	}
	return 0, io.EOF
}

func (p *pipe) Close() error {
	p.mu.Lock()
	p.closed = true
	p.cond.Broadcast()
	p.mu.Unlock()
	return nil
}

// write: called by the child; blocks while the pipe is full; data written to a
// pipe whose read end is closed is dropped (the child would get SIGPIPE/EPIPE).
func (p *pipe) write(b []byte) {
	p.mu.Lock()
	defer p.mu.Unlock()
	for len(b) > 0 {
		for len(p.buf) >= pipeCapacity && !p.closed {
			p.cond.Wait()
		}
		if p.closed {
			return
		}
		n := pipeCapacity - len(p.buf)
		if n > len(b) {
			n = len(b)
		}
		p.buf = append(p.buf, b[:n]...)
		b = b[n:]
		p.cond.Broadcast()
	}
}

func (p *pipe) closeWrite() {
	p.mu.Lock()
	p.eof = true
	p.cond.Broadcast()
	p.mu.Unlock()
}

// pipeWriter is what Cmd.Stdout / Cmd.Stderr hold after StdoutPipe / StderrPipe.
type pipeWriter struct{ p *pipe }

func (w pipeWriter) Write(b []byte) (int, error) { w.p.write(b); return len(b), nil }

type childState struct {
	mu   simrt.Mutex
	cond *simrt.Cond
	done bool
}

func (c *Cmd) StdoutPipe() (io.ReadCloser, error) {
	if c.Stdout != nil {
		return nil, errors.New("exec: Stdout already set")
	}
	if c.started {
		return nil, errors.New("exec: StdoutPipe after process started")
	}
	p := newPipe()
	c.pipes = append(c.pipes, p)
	c.Stdout = pipeWriter{p}
	return p, nil
}

func (c *Cmd) StderrPipe() (io.ReadCloser, error) {
	if c.Stderr != nil {
		return nil, errors.New("exec: Stderr already set")
	}
	if c.started {
		return nil, errors.New("exec: StderrPipe after process started")
	}
	p := newPipe()
	c.pipes = append(c.pipes, p)
	c.Stderr = pipeWriter{p}
	return p, nil
}

func (c *Cmd) startChild() error {
	c.started = true
	c.Process = &Process{Pid: 4243}
	ch := &childState{}
	ch.cond = simrt.NewCond(&ch.mu)
	c.child = ch
	script := c.script()
	if c.Dir != "" {
		simrt.S.HarnessFail("exec with Cmd.Dir is not modelled")
	}
	simrt.Go("os/exec:child", func() {
		out, err := simrt.S.Shell.Exec(script)
		c.ProcessState = &ProcessState{}
		if ee, ok := err.(*simrt.ExitError); ok {
			c.ProcessState = &ProcessState{code: ee.Code, signal: ee.Signal}
			err = &ExitError{ProcessState: c.ProcessState}
		}
		// the output reaches the pipe line by line (the mini shell does not
		// separate stdout from stderr: everything goes to stdout's writer)
		w := c.Stdout
		if w == nil {
			w = c.Stderr
		}
		for len(out) > 0 && w != nil {
			i := bytes.IndexByte(out, '\n') + 1
			if i <= 0 {
				i = len(out)
			}
			w.Write(out[:i])
			out = out[i:]
		}
		for _, p := range c.pipes {
			p.closeWrite()
		}
		ch.mu.Lock()
		c.err = err
		ch.done = true
		ch.cond.Broadcast()
		ch.mu.Unlock()
	})
	return nil
}
