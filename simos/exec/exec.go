// Package exec is the drop-in replacement for "os/exec" inside the
// instrumented copy: commands run on the simulated shell.
package exec

import (
	"bytes"
	"errors"
	"io"
	"strconv"
	"strings"

	"verif/simrt"
)

var ErrNotFound = errors.New("executable file not found in $PATH")

// ProcessState mirrors os.ProcessState for the parts code can observe.
type ProcessState struct {
	code   int
	signal string
}

func (p *ProcessState) ExitCode() int {
	if p == nil {
		return -1
	}
	if p.signal != "" {
		return -1
	}
	return p.code
}
func (p *ProcessState) Success() bool { return p != nil && p.signal == "" && p.code == 0 }
func (p *ProcessState) Exited() bool  { return p != nil && p.signal == "" }
func (p *ProcessState) Pid() int      { return 4243 }
func (p *ProcessState) String() string {
	if p == nil {
		return "<nil>"
	}
	if p.signal != "" {
		return "signal: " + p.signal
	}
	return "exit status " + strconv.Itoa(p.code)
}

type ExitError struct {
	*ProcessState
	Stderr []byte
}

func (e *ExitError) Error() string { return e.ProcessState.String() }

type Process struct{ Pid int }

func (p *Process) Kill() error { return nil }

type Cmd struct {
	Path         string
	Args         []string
	Env          []string
	Dir          string
	Stdin        io.Reader
	Stdout       io.Writer
	Stderr       io.Writer
	ProcessState *ProcessState
	Process      *Process
	started      bool
	out          []byte
	err          error
}

func Command(name string, arg ...string) *Cmd {
	return &Cmd{Path: name, Args: append([]string{name}, arg...)}
}

func LookPath(file string) (string, error) { return "/usr/bin/" + file, nil }

func (c *Cmd) String() string { return strings.Join(c.Args, " ") }

func (c *Cmd) script() string {
	b := c.Path
	if i := strings.LastIndex(b, "/"); i >= 0 {
		b = b[i+1:]
	}
	if (b == "bash" || b == "sh") && len(c.Args) == 3 && (c.Args[1] == "-c" || c.Args[1] == "-lc") {
		return c.Args[2]
	}
	if b != "bash" && b != "sh" {
		// a command started directly: the mini shell knows a few
		return strings.Join(c.Args, " ")
	}
	simrt.S.HarnessFail("exec of " + strings.Join(c.Args, " ") + " is not modelled")
	return ""
}

func (c *Cmd) exec() ([]byte, error) {
	if c.Dir != "" {
		simrt.S.HarnessFail("exec with Cmd.Dir is not modelled")
	}
	out, err := simrt.S.Shell.Exec(c.script())
	c.ProcessState = &ProcessState{}
	if ee, ok := err.(*simrt.ExitError); ok {
		c.ProcessState = &ProcessState{code: ee.Code, signal: ee.Signal}
		return out, &ExitError{ProcessState: c.ProcessState}
	}
	return out, err
}

func (c *Cmd) CombinedOutput() ([]byte, error) {
	if c.Stdout != nil || c.Stderr != nil {
		return nil, errors.New("exec: Stdout already set")
	}
	return c.exec()
}

func (c *Cmd) Output() ([]byte, error) {
	if c.Stdout != nil {
		return nil, errors.New("exec: Stdout already set")
	}
	out, err := c.exec()
	if ee, ok := err.(*ExitError); ok {
		ee.Stderr = out
	}
	return out, err
}

func (c *Cmd) Run() error {
	out, err := c.exec()
	c.deliver(out)
	return err
}

// Start runs the command to completion at once (the simulated command is
// executed as micro-steps of the calling goroutine); Wait reports the result.
func (c *Cmd) Start() error {
	c.started = true
	c.Process = &Process{Pid: 4243}
	c.out, c.err = c.exec()
	c.deliver(c.out)
	return nil
}

func (c *Cmd) Wait() error {
	if !c.started {
		return errors.New("exec: not started")
	}
	return c.err
}

func (c *Cmd) deliver(out []byte) {
	if c.Stdout != nil {
		c.Stdout.Write(out)
	} else if c.Stderr != nil {
		c.Stderr.Write(out)
	}
}

var _ = bytes.NewBuffer

// CommandContext: the context is ignored (simulated commands cannot be cancelled from outside).
func CommandContext(ctx interface{ Done() <-chan struct{} }, name string, arg ...string) *Cmd {
	return Command(name, arg...)
}
