package exec

import (
	"strings"

	"verif/simrt"
)

type ExitError = simrt.ExitError

type Cmd struct {
	Path string
	Args []string
	Dir  string
}

func Command(name string, arg ...string) *Cmd {
	return &Cmd{Path: name, Args: append([]string{name}, arg...)}
}

func LookPath(file string) (string, error) { return "/usr/bin/" + file, nil }

func (c *Cmd) script() string {
	b := c.Path
	if i := strings.LastIndex(b, "/"); i >= 0 {
		b = b[i+1:]
	}
	if (b == "bash" || b == "sh") && len(c.Args) == 3 && (c.Args[1] == "-c" || c.Args[1] == "-lc") {
		return c.Args[2]
	}
	simrt.S.HarnessFail("exec of " + strings.Join(c.Args, " ") + " is not modelled")
	return ""
}

func (c *Cmd) CombinedOutput() ([]byte, error) { return simrt.S.Shell.Exec(c.script()) }
func (c *Cmd) Output() ([]byte, error)         { return simrt.S.Shell.Exec(c.script()) }
func (c *Cmd) Run() error {
	_, err := simrt.S.Shell.Exec(c.script())
	return err
}
