// Package os is the drop-in replacement for "os" inside the instrumented
// copy of scipipe: pure helpers are re-exported, effects go to the simulated
// machine.
package os

import (
	iofs "io/fs"
	real "os"

	"verif/simrt"
)

type (
	File      = simrt.File
	FileInfo  = iofs.FileInfo
	FileMode  = iofs.FileMode
	PathError = iofs.PathError
	DirEntry  = iofs.DirEntry
	Signal    = real.Signal
)

const (
	O_RDONLY = simrt.O_RDONLY
	O_WRONLY = simrt.O_WRONLY
	O_RDWR   = simrt.O_RDWR
	O_APPEND = simrt.O_APPEND
	O_CREATE = simrt.O_CREATE
	O_EXCL   = simrt.O_EXCL
	O_TRUNC  = simrt.O_TRUNC

	ModePerm      = iofs.ModePerm
	ModeDir       = iofs.ModeDir
	ModeNamedPipe = iofs.ModeNamedPipe
	PathSeparator = '/'
)

var (
	Stdout = simrt.StdFile("/dev/stdout", 1)
	Stderr = simrt.StdFile("/dev/stderr", 2)
	Stdin  = simrt.StdFile("/dev/stdin", 1)

	ErrNotExist   = real.ErrNotExist
	ErrExist      = real.ErrExist
	ErrPermission = real.ErrPermission
	ErrInvalid    = real.ErrInvalid
	ErrClosed     = real.ErrClosed

	Args = []string{"workflow"}
)

func IsNotExist(err error) bool   { return real.IsNotExist(err) }
func IsExist(err error) bool      { return real.IsExist(err) }
func IsPermission(err error) bool { return real.IsPermission(err) }

func Exit(code int) { simrt.S.Exit(code) }

func Stat(name string) (FileInfo, error)        { return simrt.S.FS.GoStat(name) }
func Lstat(name string) (FileInfo, error)       { return simrt.S.FS.GoStat(name) }
func Mkdir(name string, perm FileMode) error    { return simrt.S.FS.GoMkdir(name) }
func MkdirAll(path string, perm FileMode) error { return simrt.S.FS.GoMkdirAll(path) }
func Remove(name string) error                  { return simrt.S.FS.GoRemove(name) }
func RemoveAll(path string) error               { return simrt.S.FS.GoRemoveAll(path) }
func Rename(o, n string) error                  { return simrt.S.FS.GoRename(o, n) }
func Create(name string) (*File, error)         { return simrt.S.FS.GoCreate(name) }
func Open(name string) (*File, error)           { return simrt.S.FS.GoOpen(name) }
func OpenFile(name string, flag int, perm FileMode) (*File, error) {
	return simrt.S.FS.GoOpenFile(name, flag)
}
func ReadFile(name string) ([]byte, error) { return simrt.S.FS.GoReadFile(name) }
func WriteFile(name string, data []byte, perm FileMode) error {
	return simrt.S.FS.GoWriteFile(name, data)
}
func CreateTemp(dir, pattern string) (*File, error) { return simrt.S.FS.GoTempFile(dir, pattern) }
func TempDir() string                               { return "/tmp" }
func Getwd() (string, error)                        { return simrt.S.FS.Cwd, nil }
func Hostname() (string, error)                     { return "simhost", nil }
func Getpid() int                                   { return 4242 }

func LookupEnv(key string) (string, bool) {
	v, ok := simrt.S.Cfg.Env[key]
	return v, ok
}
func Getenv(key string) string { return simrt.S.Cfg.Env[key] }
func Setenv(key, value string) error {
	if simrt.S.Cfg.Env == nil {
		simrt.S.Cfg.Env = map[string]string{}
	}
	simrt.S.Cfg.Env[key] = value
	return nil
}
func Unsetenv(key string) error { delete(simrt.S.Cfg.Env, key); return nil }
