// Package os is the drop-in replacement for "os" inside the instrumented
// copy of scipipe: pure helpers are re-exported, effects go to the simulated
// machine.
package os

import (
	iofs "io/fs"
	real "os"
	"time"

	"verif/simrt"
)

type (
	File         = simrt.File
	FileInfo     = iofs.FileInfo
	FileMode     = iofs.FileMode
	PathError    = iofs.PathError
	LinkError    = real.LinkError
	SyscallError = real.SyscallError
	DirEntry     = iofs.DirEntry
	Signal       = real.Signal
)

const (
	O_RDONLY = simrt.O_RDONLY
	O_WRONLY = simrt.O_WRONLY
	O_RDWR   = simrt.O_RDWR
	O_APPEND = simrt.O_APPEND
	O_CREATE = simrt.O_CREATE
	O_EXCL   = simrt.O_EXCL
	O_TRUNC  = simrt.O_TRUNC

	ModePerm      = iofs.ModePerm
	ModeDir       = iofs.ModeDir
	ModeNamedPipe = iofs.ModeNamedPipe
	PathSeparator = '/'
)

var (
	Stdout = simrt.StdFile("/dev/stdout", 1)
	Stderr = simrt.StdFile("/dev/stderr", 2)
	Stdin  = simrt.StdFile("/dev/stdin", 1)

	ErrNotExist   = real.ErrNotExist
	ErrExist      = real.ErrExist
	ErrPermission = real.ErrPermission
	ErrInvalid    = real.ErrInvalid
	ErrClosed     = real.ErrClosed

	Args = []string{"workflow"}
)

func IsNotExist(err error) bool   { return real.IsNotExist(err) }
func IsExist(err error) bool      { return real.IsExist(err) }
func IsPermission(err error) bool { return real.IsPermission(err) }

func Exit(code int) { simrt.S.Exit(code) }

func Stat(name string) (FileInfo, error)        { return simrt.S.FS.GoStat(name) }
func Lstat(name string) (FileInfo, error)       { return simrt.S.FS.GoLstat(name) }
func Mkdir(name string, perm FileMode) error    { return simrt.S.FS.GoMkdir(name) }
func MkdirAll(path string, perm FileMode) error { return simrt.S.FS.GoMkdirAll(path) }
func Remove(name string) error                  { return simrt.S.FS.GoRemove(name) }
func RemoveAll(path string) error               { return simrt.S.FS.GoRemoveAll(path) }
func Rename(o, n string) error                  { return simrt.S.FS.GoRename(o, n) }
func Create(name string) (*File, error)         { return simrt.S.FS.GoCreate(name) }
func Open(name string) (*File, error)           { return simrt.S.FS.GoOpen(name) }
func OpenFile(name string, flag int, perm FileMode) (*File, error) {
	return simrt.S.FS.GoOpenFile(name, flag)
}
func ReadFile(name string) ([]byte, error) { return simrt.S.FS.GoReadFile(name) }
func WriteFile(name string, data []byte, perm FileMode) error {
	return simrt.S.FS.GoWriteFile(name, data)
}
func CreateTemp(dir, pattern string) (*File, error) { return simrt.S.FS.GoTempFile(dir, pattern) }
func TempDir() string                               { return "/tmp" }
func Getwd() (string, error)                        { return simrt.S.FS.Cwd, nil }
func Hostname() (string, error)                     { return "simhost", nil }
func Getpid() int                                   { return 4242 }

func LookupEnv(key string) (string, bool) {
	v, ok := simrt.S.Cfg.Env[key]
	return v, ok
}
func Getenv(key string) string { return simrt.S.Cfg.Env[key] }
func Setenv(key, value string) error {
	if simrt.S.Cfg.Env == nil {
		simrt.S.Cfg.Env = map[string]string{}
	}
	simrt.S.Cfg.Env[key] = value
	return nil
}
func Unsetenv(key string) error { delete(simrt.S.Cfg.Env, key); return nil }

// --- less common calls, so that small edits to the library keep compiling -----

func Chtimes(name string, atime, mtime time.Time) error {
	s := simrt.S
	s.Pre("chtimes", 0, name)
	n, err := s.FS.Lookup(s.FS.Cwd, name)
	if err != nil {
		return err
	}
	n.Mtime = mtime.UnixNano()
	s.FS.JournalNote("chtimes", name, n.Ino)
	return nil
}

func Chmod(name string, mode FileMode) error {
	s := simrt.S
	s.Pre("chmod", 0, name)
	n, err := s.FS.Lookup(s.FS.Cwd, name)
	if err != nil {
		return err
	}
	n.Mode = uint32(mode.Perm())
	return nil
}

func Chown(name string, uid, gid int) error { _, err := Stat(name); return err }

func Truncate(name string, size int64) error {
	s := simrt.S
	s.Pre("truncate", 0, name)
	n, err := s.FS.Lookup(s.FS.Cwd, name)
	if err != nil {
		return err
	}
	d := make([]byte, size)
	copy(d, n.Data)
	n.Data = d
	s.FS.JournalNote("truncate", name, n.Ino)
	return nil
}

func SameFile(a, b FileInfo) bool {
	x, ok1 := a.Sys().(*simrt.Inode)
	y, ok2 := b.Sys().(*simrt.Inode)
	return ok1 && ok2 && x == y
}

func Symlink(oldname, newname string) error {
	simrt.S.HarnessFail("symlinks are not modelled")
	return nil
}

func Link(oldname, newname string) error {
	simrt.S.HarnessFail("hard links are not modelled")
	return nil
}

type dirEntry struct{ fi FileInfo }

func (d dirEntry) Name() string            { return d.fi.Name() }
func (d dirEntry) IsDir() bool             { return d.fi.IsDir() }
func (d dirEntry) Type() FileMode          { return d.fi.Mode().Type() }
func (d dirEntry) Info() (FileInfo, error) { return d.fi, nil }

func ReadDir(name string) ([]DirEntry, error) {
	fis, err := simrt.S.FS.GoReadDir(name)
	if err != nil {
		return nil, err
	}
	out := make([]DirEntry, len(fis))
	for i, fi := range fis {
		out[i] = dirEntry{fi}
	}
	return out, nil
}

func MkdirTemp(dir, pattern string) (string, error) {
	f, err := simrt.S.FS.GoTempFile(dir, pattern)
	if err != nil {
		return "", err
	}
	name := f.Name()
	if err := simrt.S.FS.GoRemove(name); err != nil {
		return "", err
	}
	return name, simrt.S.FS.GoMkdir(name)
}

func UserHomeDir() (string, error) { return "/home/sim", nil }
func Executable() (string, error)  { return "/work/workflow", nil }
func Environ() []string {
	var e []string
	for k, v := range simrt.S.Cfg.Env {
		e = append(e, k+"="+v)
	}
	return e
}
func Getuid() int                  { return 1000 }
func Getgid() int                  { return 1000 }
func IsPathSeparator(c uint8) bool { return c == '/' }

const DevNull = "/dev/null"
