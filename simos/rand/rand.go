package rand

import (
	real "math/rand"

	"verif/simrt"
)

type (
	Rand   = real.Rand
	Source = real.Source
)

func NewSource(seed int64) Source { return real.NewSource(seed) }
func New(src Source) *Rand        { return real.New(src) }

func global() *Rand {
	s := simrt.S
	if r, ok := s.Aux["rand"]; ok {
		return r.(*Rand)
	}
	r := real.New(real.NewSource(int64(s.Tape.Seed) + 12345))
	s.Aux["rand"] = r
	return r
}

func Seed(seed int64)                    { simrt.S.Aux["rand"] = real.New(real.NewSource(seed)) }
func Intn(n int) int                     { return global().Intn(n) }
func Int() int                           { return global().Int() }
func Int63() int64                       { return global().Int63() }
func Int63n(n int64) int64               { return global().Int63n(n) }
func Int31n(n int32) int32               { return global().Int31n(n) }
func Float64() float64                   { return global().Float64() }
func Perm(n int) []int                   { return global().Perm(n) }
func Shuffle(n int, swap func(i, j int)) { global().Shuffle(n, swap) }
