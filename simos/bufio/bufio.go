// Package bufio: drop-in for "bufio" in the instrumented copy. Readers and
// scanners are the real ones; Writer is wrapped so that the race build sees
// every call on a shared buffered writer as a write access to that object
// (a bufio.Writer is not safe for concurrent use).
package bufio

import (
	real "bufio"
	"io"

	"verif/simrt"
)

type (
	Reader     = real.Reader
	Scanner    = real.Scanner
	SplitFunc  = real.SplitFunc
	ReadWriter = real.ReadWriter
)

const (
	MaxScanTokenSize = real.MaxScanTokenSize
)

var (
	ErrTooLong = real.ErrTooLong
	ScanLines  = real.ScanLines
	ScanWords  = real.ScanWords
	ScanBytes  = real.ScanBytes
	ScanRunes  = real.ScanRunes
)

func NewReader(rd io.Reader) *Reader            { return real.NewReader(rd) }
func NewReaderSize(rd io.Reader, n int) *Reader { return real.NewReaderSize(rd, n) }
func NewScanner(r io.Reader) *Scanner           { return real.NewScanner(r) }

type Writer struct {
	w     *real.Writer
	state int // the location the race checker watches
}

func NewWriter(w io.Writer) *Writer            { return &Writer{w: real.NewWriter(w)} }
func NewWriterSize(w io.Writer, n int) *Writer { return &Writer{w: real.NewWriterSize(w, n)} }

func (b *Writer) touch(site string) { simrt.W(&b.state, "bufio.Writer."+site) }

func (b *Writer) Write(p []byte) (int, error) { b.touch("Write"); return b.w.Write(p) }
func (b *Writer) WriteString(s string) (int, error) {
	b.touch("WriteString")
	return b.w.WriteString(s)
}
func (b *Writer) WriteByte(c byte) error        { b.touch("WriteByte"); return b.w.WriteByte(c) }
func (b *Writer) WriteRune(r rune) (int, error) { b.touch("WriteRune"); return b.w.WriteRune(r) }
func (b *Writer) Flush() error                  { b.touch("Flush"); return b.w.Flush() }
func (b *Writer) Available() int                { return b.w.Available() }
func (b *Writer) Buffered() int                 { return b.w.Buffered() }
func (b *Writer) Size() int                     { return b.w.Size() }
func (b *Writer) Reset(w io.Writer)             { b.touch("Reset"); b.w.Reset(w) }
