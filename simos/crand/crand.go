// Package rand is the simulator's crypto/rand: the operating system's
// entropy source. Modelled as a stream that never repeats - not within a
// program and not between two programs of one history - yet is a pure
// function of the case's tape seed and the incarnation, so every run replays.
package rand

import (
	"verif/simrt"
)

type state struct{ x uint64 }

func next(st *state) uint64 {
	st.x += 0x9e3779b97f4a7c15
	z := st.x
	z = (z ^ (z >> 30)) * 0xbf58476d1ce4e5b9
	z = (z ^ (z >> 27)) * 0x94d049bb133111eb
	return z ^ (z >> 31)
}

func global() *state {
	s := simrt.S
	if r, ok := s.Aux["crand"]; ok {
		return r.(*state)
	}
	// (the epoch differs between the incarnations of one history, also when
	// they read the same value from a coarse wall clock)
	st := &state{x: s.Tape.Seed*0x2545f4914f6cdd1d ^ uint64(s.Cfg.Epoch)}
	next(st)
	s.Aux["crand"] = st
	return st
}

// Read fills b with simulated entropy; it never fails.
func Read(b []byte) (int, error) {
	if simrt.S == nil {
		for i := range b {
			b[i] = byte(i)
		}
		return len(b), nil
	}
	st := global()
	for i := 0; i < len(b); i += 8 {
		v := next(st)
		for j := 0; j < 8 && i+j < len(b); j++ {
			b[i+j] = byte(v >> (8 * j))
		}
	}
	return len(b), nil
}
