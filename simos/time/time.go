package time

import (
	real "time"

	"verif/simrt"
)

type (
	Time     = real.Time
	Duration = real.Duration
	Month    = real.Month
	Weekday  = real.Weekday
	Location = real.Location
)

const (
	Nanosecond  = real.Nanosecond
	Microsecond = real.Microsecond
	Millisecond = real.Millisecond
	Second      = real.Second
	Minute      = real.Minute
	Hour        = real.Hour

	RFC3339     = real.RFC3339
	RFC3339Nano = real.RFC3339Nano
	RFC1123     = real.RFC1123
	Kitchen     = real.Kitchen
	ANSIC       = real.ANSIC
	UnixDate    = real.UnixDate
)

var (
	UTC   = real.UTC
	Local = real.UTC
)

func Now() Time                                { return real.Unix(0, simrt.S.NowNS()).UTC() }
func Sleep(d Duration)                         { simrt.S.SleepNS(int64(d)) }
func Since(t Time) Duration                    { return Now().Sub(t) }
func Until(t Time) Duration                    { return t.Sub(Now()) }
func Unix(sec, nsec int64) Time                { return real.Unix(sec, nsec) }
func Parse(l, v string) (Time, error)          { return real.Parse(l, v) }
func ParseDuration(s string) (Duration, error) { return real.ParseDuration(s) }
func Date(y int, m Month, d, h, mi, s, ns int, l *Location) Time {
	return real.Date(y, m, d, h, mi, s, ns, l)
}
