package time

import (
	real "time"

	"verif/simrt"
)

type (
	Time     = real.Time
	Duration = real.Duration
	Month    = real.Month
	Weekday  = real.Weekday
	Location = real.Location
)

const (
	Nanosecond  = real.Nanosecond
	Microsecond = real.Microsecond
	Millisecond = real.Millisecond
	Second      = real.Second
	Minute      = real.Minute
	Hour        = real.Hour

	RFC3339     = real.RFC3339
	RFC3339Nano = real.RFC3339Nano
	RFC1123     = real.RFC1123
	Kitchen     = real.Kitchen
	ANSIC       = real.ANSIC
	UnixDate    = real.UnixDate
)

var (
	UTC   = real.UTC
	Local = real.UTC
)

func Now() Time {
	s := simrt.S
	if s == nil {
		// package initialisation of the instrumented library, before any simulation
		// runs (package state is re-initialised inside every incarnation anyway)
		return real.Unix(1790000000, 0).UTC()
	}
	t := real.Unix(0, s.NowNS())
	if off := s.Cfg.TZOffset; off != 0 {
		return t.In(real.FixedZone("", off))
	}
	return t.UTC()
}
func Sleep(d Duration)                         { simrt.S.SleepNS(int64(d)) }
func Since(t Time) Duration                    { return Now().Sub(t) }
func Until(t Time) Duration                    { return t.Sub(Now()) }
func Unix(sec, nsec int64) Time                { return real.Unix(sec, nsec) }
func Parse(l, v string) (Time, error)          { return real.Parse(l, v) }
func ParseDuration(s string) (Duration, error) { return real.ParseDuration(s) }
func Date(y int, m Month, d, h, mi, s, ns int, l *Location) Time {
	return real.Date(y, m, d, h, mi, s, ns, l)
}

// --- timers: channels fed from scheduler context ------------------------------

type Timer struct {
	C    <-chan Time
	c    chan Time
	dead *bool
	fn   func()
}

func NewTimer(d Duration) *Timer {
	t := &Timer{c: make(chan Time, 1)}
	t.C = t.c
	s := simrt.S
	t.dead = s.AfterNS(int64(d), func() { simrt.InjectSend(s, t.c, Now0(s)) })
	return t
}

func Now0(s *simrt.Sim) Time { return real.Unix(0, s.Cfg.Epoch+s.SimTimeNS()).UTC() }

func (t *Timer) Stop() bool {
	was := !*t.dead
	*t.dead = true
	return was
}

func (t *Timer) Reset(d Duration) bool {
	was := t.Stop()
	s := simrt.S
	if t.fn != nil {
		f := t.fn
		t.dead = s.AfterNS(int64(d), func() { s.SpawnFromTimer("time.AfterFunc", f) })
	} else {
		t.dead = s.AfterNS(int64(d), func() { simrt.InjectSend(s, t.c, Now0(s)) })
	}
	return was
}

func After(d Duration) <-chan Time { return NewTimer(d).C }

func AfterFunc(d Duration, f func()) *Timer {
	t := &Timer{fn: f}
	s := simrt.S
	t.dead = s.AfterNS(int64(d), func() { s.SpawnFromTimer("time.AfterFunc", f) })
	return t
}

type Ticker struct {
	C    <-chan Time
	c    chan Time
	dead *bool
}

func NewTicker(d Duration) *Ticker {
	t := &Ticker{c: make(chan Time, 1)}
	t.C = t.c
	s := simrt.S
	stopped := new(bool)
	t.dead = stopped
	var arm func()
	arm = func() {
		s.AfterNS(int64(d), func() {
			if *stopped {
				return
			}
			simrt.InjectSend(s, t.c, Now0(s))
			arm()
		})
	}
	arm()
	return t
}

func (t *Ticker) Stop()           { *t.dead = true }
func Tick(d Duration) <-chan Time { return NewTicker(d).C }
