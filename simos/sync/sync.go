package sync

import (
	real "sync"

	"verif/simrt"
)

type (
	Mutex     = simrt.Mutex
	RWMutex   = simrt.RWMutex
	WaitGroup = simrt.WaitGroup
	Once      = simrt.Once
	Cond      = simrt.Cond
	Locker    = real.Locker
	Map       = real.Map
)

func NewCond(l Locker) *Cond { return simrt.NewCond(l) }

// Pool: a deterministic sync.Pool. The real one keeps per-P caches and drops
// items at garbage collections - which item Get returns would not replay. This
// one always hands back the item that was Put last (the behaviour of the real
// pool on one P between two collections, and the one under which a buffer that
// is still in use after its Put is re-used soonest).
type Pool struct {
	New   func() any
	items []any
}

func (p *Pool) Get() any {
	if n := len(p.items); n > 0 {
		x := p.items[n-1]
		p.items = p.items[:n-1]
		return x
	}
	if p.New != nil {
		return p.New()
	}
	return nil
}

func (p *Pool) Put(x any) {
	if x != nil {
		p.items = append(p.items, x)
	}
}
