package sync

import (
	real "sync"

	"verif/simrt"
)

type (
	Mutex     = simrt.Mutex
	RWMutex   = simrt.RWMutex
	WaitGroup = simrt.WaitGroup
	Once      = simrt.Once
	Pool      = real.Pool
	Locker    = real.Locker
)
