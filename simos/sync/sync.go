package sync

import (
	real "sync"

	"verif/simrt"
)

type (
	Mutex     = simrt.Mutex
	RWMutex   = simrt.RWMutex
	WaitGroup = simrt.WaitGroup
	Once      = simrt.Once
	Cond      = simrt.Cond
	Pool      = real.Pool
	Locker    = real.Locker
	Map       = real.Map
)

func NewCond(l Locker) *Cond { return simrt.NewCond(l) }
