module verif

go 1.21
