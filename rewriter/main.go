// Command rewriter instruments a scratch copy of scipipe for the simulator:
// import swap (os, io/ioutil, os/exec, path/filepath, time, sync, math/rand,
// log -> verif/simos/...), channel operations / select / go / range-over-map
// -> verif/simrt. The logic of the code is untouched. Usage:
//
//	rewriter [-race] <repo dir> <out dir> <verif dir>
package main

import (
	"bytes"
	"flag"
	"fmt"
	"go/ast"
	"go/format"
	"go/importer"
	"go/parser"
	"go/token"
	"go/types"
	"os"
	"path/filepath"
	"reflect"
	"sort"
	"strconv"
	"strings"
)

var swap = map[string]string{
	"os":            "verif/simos/os",
	"io/ioutil":     "verif/simos/ioutil",
	"os/exec":       "verif/simos/exec",
	"path/filepath": "verif/simos/filepath",
	"time":          "verif/simos/time",
	"sync":          "verif/simos/sync",
	"math/rand":     "verif/simos/rand",
	"crypto/rand":   "verif/simos/crand",
	"log":           "verif/simos/log",
	"bufio":         "verif/simos/bufio",
}

var raceMode = flag.Bool("race", false, "also instrument memory accesses for the in-simulator race checker")

func die(format string, a ...any) {
	fmt.Fprintf(os.Stderr, "rewriter: "+format+"\n", a...)
	os.Exit(2)
}

type pkgImporter struct {
	std   types.Importer
	known map[string]*types.Package
}

func (p *pkgImporter) Import(path string) (*types.Package, error) {
	if k, ok := p.known[path]; ok {
		return k, nil
	}
	return p.std.Import(path)
}

func main() {
	flag.Parse()
	if flag.NArg() != 3 {
		die("usage: rewriter [-race] <repo> <out> <verif>")
	}
	repo, out, verif := flag.Arg(0), flag.Arg(1), flag.Arg(2)
	fset := token.NewFileSet()
	imp := &pkgImporter{std: importer.ForCompiler(fset, "source", nil), known: map[string]*types.Package{}}

	modPath := "github.com/scipipe/scipipe"
	pkgs := []struct{ dir, path string }{
		{"", modPath},
		{"components", modPath + "/components"},
	}
	for _, p := range pkgs {
		dir := filepath.Join(repo, p.dir)
		ents, err := os.ReadDir(dir)
		if err != nil {
			die("%v", err)
		}
		var files []*ast.File
		var names []string
		for _, e := range ents {
			n := e.Name()
			if e.IsDir() || !strings.HasSuffix(n, ".go") || strings.HasSuffix(n, "_test.go") {
				continue
			}
			f, err := parser.ParseFile(fset, filepath.Join(dir, n), nil, parser.SkipObjectResolution)
			if err != nil {
				die("parse: %v", err)
			}
			files = append(files, f)
			names = append(names, n)
		}
		info := &types.Info{
			Types:      map[ast.Expr]types.TypeAndValue{},
			Uses:       map[*ast.Ident]types.Object{},
			Defs:       map[*ast.Ident]types.Object{},
			Selections: map[*ast.SelectorExpr]*types.Selection{},
		}
		conf := types.Config{Importer: imp, Error: func(err error) { fmt.Fprintln(os.Stderr, "rewriter: type error:", err) }}
		tpkg, err := conf.Check(p.path, fset, files, info)
		if err != nil {
			die("type-check of %s failed: %v", p.path, err)
		}
		imp.known[p.path] = tpkg
		odir := filepath.Join(out, p.dir)
		if err := os.MkdirAll(odir, 0777); err != nil {
			die("%v", err)
		}
		// package-level variables are re-initialised before every simulation
		// (scipipe keeps loggers, flags, counters in globals; one worker process
		// runs many simulations): SimResetGlobals re-assigns each of them its
		// declared initial value, or the zero value.
		var reset bytes.Buffer
		fmt.Fprintf(&reset, "package %s\n\n", tpkg.Name())
		resetImports := map[string]string{}
		var resetBody bytes.Buffer
		for i, f := range files {
			_ = i
			for _, d := range f.Decls {
				gd, ok := d.(*ast.GenDecl)
				if !ok || gd.Tok != token.VAR {
					continue
				}
				for _, sp := range gd.Specs {
					vs := sp.(*ast.ValueSpec)
					var lhs []string
					blank := true
					for _, n := range vs.Names {
						lhs = append(lhs, n.Name)
						if n.Name != "_" {
							blank = false
						}
					}
					if blank {
						continue
					}
					if len(vs.Values) > 0 {
						var rhs []string
						for _, v := range vs.Values {
							var b bytes.Buffer
							format.Node(&b, fset, v)
							rhs = append(rhs, b.String())
							ast.Inspect(v, func(x ast.Node) bool {
								if se, ok := x.(*ast.SelectorExpr); ok {
									if id, ok := se.X.(*ast.Ident); ok {
										if pn, ok := info.Uses[id].(*types.PkgName); ok {
											resetImports[id.Name] = pn.Imported().Path()
										}
									}
								}
								return true
							})
						}
						fmt.Fprintf(&resetBody, "\t%s = %s\n", strings.Join(lhs, ", "), strings.Join(rhs, ", "))
					} else if vs.Type != nil {
						var b bytes.Buffer
						format.Node(&b, fset, vs.Type)
						ast.Inspect(vs.Type, func(x ast.Node) bool {
							if se, ok := x.(*ast.SelectorExpr); ok {
								if id, ok := se.X.(*ast.Ident); ok {
									if pn, ok := info.Uses[id].(*types.PkgName); ok {
										resetImports[id.Name] = pn.Imported().Path()
									}
								}
							}
							return true
						})
						for _, n := range vs.Names {
							if n.Name == "_" {
								continue
							}
							fmt.Fprintf(&resetBody, "\t{\n\t\tvar z %s\n\t\t%s = z\n\t}\n", b.String(), n.Name)
						}
					}
				}
			}
		}
		if len(resetImports) > 0 {
			reset.WriteString("import (\n")
			var ks []string
			for k := range resetImports {
				ks = append(ks, k)
			}
			sort.Strings(ks)
			for _, k := range ks {
				p := resetImports[k]
				if np, ok := swap[p]; ok {
					p = np
				}
				fmt.Fprintf(&reset, "\t%s %q\n", k, p)
			}
			reset.WriteString(")\n\n")
		}
		reset.WriteString("// SimResetGlobals is generated by verif/rewriter.\nfunc SimResetGlobals() {\n")
		reset.Write(resetBody.Bytes())
		reset.WriteString("}\n")
		if src, err := format.Source(reset.Bytes()); err == nil {
			os.WriteFile(filepath.Join(odir, "zz_sim_reset.go"), src, 0666)
		} else {
			os.WriteFile(filepath.Join(odir, "zz_sim_reset.go.broken"), reset.Bytes(), 0666)
			die("generated reset file for %s does not parse: %v", p.path, err)
		}
		for i, f := range files {
			rw := &rewriter{fset: fset, info: info, file: names[i], pkg: tpkg, counts: map[string]int{}}
			rw.rewriteFile(f)
			var buf bytes.Buffer
			f.Comments = nil
			if err := format.Node(&buf, fset, f); err != nil {
				die("print %s: %v", names[i], err)
			}
			src, err := format.Source(buf.Bytes())
			if err != nil {
				os.WriteFile(filepath.Join(odir, names[i]+".broken"), buf.Bytes(), 0666)
				die("re-format %s: %v", names[i], err)
			}
			if err := os.WriteFile(filepath.Join(odir, names[i]), src, 0666); err != nil {
				die("%v", err)
			}
		}
	}
	gomod := "module " + modPath + "\n\ngo 1.21\n\nrequire verif v0.0.0\n\nreplace verif => " + verif + "\n"
	if err := os.WriteFile(filepath.Join(out, "go.mod"), []byte(gomod), 0666); err != nil {
		die("%v", err)
	}
}

type rewriter struct {
	fset     *token.FileSet
	info     *types.Info
	file     string
	pkg      *types.Package
	fn       string
	counts   map[string]int
	tmp      int
	useSimrt bool
	captured map[*types.Var]bool // locals that a function literal declared elsewhere refers to
	noWrap   map[ast.Expr]bool   // identifiers already embedded in an instrumentation call
}

func (rw *rewriter) site(kind string) string {
	k := rw.fn + ":" + kind
	rw.counts[k]++
	return fmt.Sprintf("%s:%s:%s:%d", rw.file, rw.fn, kind, rw.counts[k])
}

func (rw *rewriter) name(prefix string) *ast.Ident {
	rw.tmp++
	return ast.NewIdent(fmt.Sprintf("__sim_%s%d", prefix, rw.tmp))
}

func id(s string) *ast.Ident { return ast.NewIdent(s) }

func (rw *rewriter) simrt(fn string, args ...ast.Expr) *ast.CallExpr {
	rw.useSimrt = true
	return &ast.CallExpr{Fun: &ast.SelectorExpr{X: id("simrt"), Sel: id(fn)}, Args: args}
}

func str(s string) ast.Expr { return &ast.BasicLit{Kind: token.STRING, Value: strconv.Quote(s)} }

func define(lhs []ast.Expr, rhs ...ast.Expr) *ast.AssignStmt {
	return &ast.AssignStmt{Lhs: lhs, Tok: token.DEFINE, Rhs: rhs}
}

func assign(lhs []ast.Expr, rhs ...ast.Expr) *ast.AssignStmt {
	return &ast.AssignStmt{Lhs: lhs, Tok: token.ASSIGN, Rhs: rhs}
}

func isBlank(e ast.Expr) bool {
	if e == nil {
		return true
	}
	i, ok := e.(*ast.Ident)
	return ok && i.Name == "_"
}

func (rw *rewriter) typeOf(e ast.Expr) types.Type {
	if tv, ok := rw.info.Types[e]; ok {
		return tv.Type
	}
	if i, ok := e.(*ast.Ident); ok {
		if o := rw.info.Uses[i]; o != nil {
			return o.Type()
		}
		if o := rw.info.Defs[i]; o != nil {
			return o.Type()
		}
	}
	return nil
}

func (rw *rewriter) isChan(e ast.Expr) bool {
	t := rw.typeOf(e)
	if t == nil {
		return false
	}
	_, ok := t.Underlying().(*types.Chan)
	return ok
}

func (rw *rewriter) isSlice(e ast.Expr) bool {
	t := rw.typeOf(e)
	if t == nil {
		return false
	}
	_, ok := t.Underlying().(*types.Slice)
	return ok
}

func (rw *rewriter) isMap(e ast.Expr) bool {
	t := rw.typeOf(e)
	if t == nil {
		return false
	}
	_, ok := t.Underlying().(*types.Map)
	return ok
}

// ---------------------------------------------------------------------------

func (rw *rewriter) rewriteFile(f *ast.File) {
	rw.captured = map[*types.Var]bool{}
	rw.noWrap = map[ast.Expr]bool{}
	rw.findCaptured(f)
	for _, d := range f.Decls {
		switch d := d.(type) {
		case *ast.FuncDecl:
			rw.fn = d.Name.Name
			if d.Recv != nil && len(d.Recv.List) > 0 {
				rw.fn = recvName(d.Recv.List[0].Type) + "." + d.Name.Name
			}
			if d.Body != nil {
				rw.stmt(d.Body)
			}
		case *ast.GenDecl:
			rw.fn = "init"
			for _, s := range d.Specs {
				if vs, ok := s.(*ast.ValueSpec); ok {
					for _, v := range vs.Values {
						rw.funcLits(v)
					}
				}
			}
		}
	}
	rw.fn = "expr"
	nmap := rw.countMapRanges(f)
	if nmap != 0 {
		die("%s: %d range-over-map statement(s) were not rewritten", rw.file, nmap)
	}
	if *raceMode {
		rw.raceExprs(f)
	}
	rw.fixRecv2(f)
	rw.fixExprs(f)
	rw.audit(f)
	// imports
	for _, is := range f.Imports {
		p, _ := strconv.Unquote(is.Path.Value)
		if np, ok := swap[p]; ok {
			is.Path.Value = strconv.Quote(np)
			is.Path.ValuePos = token.NoPos
		}
	}
	if rw.useSimrt {
		spec := &ast.ImportSpec{Name: id("simrt"), Path: &ast.BasicLit{Kind: token.STRING, Value: strconv.Quote("verif/simrt")}}
		gd := &ast.GenDecl{Tok: token.IMPORT, Specs: []ast.Spec{spec}}
		f.Decls = append([]ast.Decl{gd}, f.Decls...)
		f.Imports = append(f.Imports, spec)
	}
}

func recvName(e ast.Expr) string {
	switch t := e.(type) {
	case *ast.StarExpr:
		return recvName(t.X)
	case *ast.Ident:
		return t.Name
	case *ast.IndexExpr:
		return recvName(t.X)
	}
	return "?"
}

// funcLits processes the bodies of function literals inside an expression.
func (rw *rewriter) funcLits(n ast.Node) {
	if n == nil || reflect.ValueOf(n).IsNil() {
		return
	}
	ast.Inspect(n, func(x ast.Node) bool {
		if fl, ok := x.(*ast.FuncLit); ok {
			rw.stmt(fl.Body)
			return false
		}
		return true
	})
}

func (rw *rewriter) stmtList(list []ast.Stmt) []ast.Stmt {
	for i, s := range list {
		list[i] = rw.stmt(s)
	}
	return list
}

func (rw *rewriter) stmt(s ast.Stmt) ast.Stmt {
	switch s := s.(type) {
	case nil:
		return nil
	case *ast.BlockStmt:
		if s != nil {
			s.List = rw.stmtList(s.List)
		}
		return s
	case *ast.IfStmt:
		s.Init = rw.stmt(s.Init)
		rw.funcLits(s.Cond)
		rw.stmt(s.Body)
		if s.Else != nil {
			s.Else = rw.stmt(s.Else)
		}
		return s
	case *ast.ForStmt:
		s.Init = rw.stmt(s.Init)
		if s.Cond != nil {
			rw.funcLits(s.Cond)
		}
		s.Post = rw.stmt(s.Post)
		rw.stmt(s.Body)
		return s
	case *ast.SwitchStmt:
		s.Init = rw.stmt(s.Init)
		if s.Tag != nil {
			rw.funcLits(s.Tag)
		}
		rw.stmt(s.Body)
		return s
	case *ast.TypeSwitchStmt:
		s.Init = rw.stmt(s.Init)
		rw.stmt(s.Body)
		return s
	case *ast.CaseClause:
		for _, e := range s.List {
			rw.funcLits(e)
		}
		s.Body = rw.stmtList(s.Body)
		return s
	case *ast.CommClause:
		s.Body = rw.stmtList(s.Body)
		return s
	case *ast.LabeledStmt:
		inner := rw.stmt(s.Stmt)
		if b, ok := inner.(*ast.BlockStmt); ok && b != s.Stmt {
			// generated block for range/select: keep the label on the loop/switch
			last := len(b.List) - 1
			b.List[last] = &ast.LabeledStmt{Label: s.Label, Stmt: b.List[last]}
			return b
		}
		s.Stmt = inner
		return s
	case *ast.RangeStmt:
		rw.funcLits(s.X)
		rw.stmt(s.Body)
		if rw.isChan(s.X) {
			return rw.rangeChan(s)
		}
		if rw.isMap(s.X) {
			return rw.rangeMap(s)
		}
		if *raceMode && s.Tok == token.DEFINE {
			var pre []ast.Stmt
			for _, e := range []ast.Expr{s.Key, s.Value} {
				if e != nil && !isBlank(e) && rw.isCaptured(e) {
					pre = append(pre, &ast.ExprStmt{X: rw.simrt("W", &ast.UnaryExpr{Op: token.AND, X: e}, str(rw.file+":loopvar "+e.(*ast.Ident).Name+"@"+rw.posSite(e)))})
				}
			}
			s.Body.List = append(pre, s.Body.List...)
		}
		return s
	case *ast.SelectStmt:
		return rw.selectStmt(s)
	case *ast.GoStmt:
		return rw.goStmt(s)
	case *ast.SendStmt:
		rw.funcLits(s.Chan)
		rw.funcLits(s.Value)
		return &ast.ExprStmt{X: rw.simrt("Send", s.Chan, s.Value)}
	case *ast.DeferStmt:
		rw.funcLits(s.Call)
		return s
	case *ast.ExprStmt:
		rw.funcLits(s.X)
		return s
	case *ast.AssignStmt:
		for _, e := range s.Rhs {
			rw.funcLits(e)
		}
		for _, e := range s.Lhs {
			rw.funcLits(e)
		}
		return s
	case *ast.ReturnStmt:
		for _, e := range s.Results {
			rw.funcLits(e)
		}
		return s
	case *ast.DeclStmt:
		rw.funcLits(s.Decl)
		return s
	case *ast.IncDecStmt:
		return s
	default:
		return s
	}
}

func (rw *rewriter) goStmt(s *ast.GoStmt) ast.Stmt {
	site := rw.site("go")
	call := s.Call
	if fl, ok := call.Fun.(*ast.FuncLit); ok && len(call.Args) == 0 {
		rw.stmt(fl.Body)
		return &ast.ExprStmt{X: rw.simrt("Go", str(site), fl)}
	}
	rw.funcLits(call)
	var pre []ast.Stmt
	fn := rw.name("f")
	pre = append(pre, define([]ast.Expr{fn}, call.Fun))
	var args []ast.Expr
	for _, a := range call.Args {
		t := rw.name("a")
		pre = append(pre, define([]ast.Expr{t}, a))
		args = append(args, t)
	}
	inner := &ast.CallExpr{Fun: fn, Args: args, Ellipsis: call.Ellipsis}
	lit := &ast.FuncLit{Type: &ast.FuncType{Params: &ast.FieldList{}}, Body: &ast.BlockStmt{List: []ast.Stmt{&ast.ExprStmt{X: inner}}}}
	pre = append(pre, &ast.ExprStmt{X: rw.simrt("Go", str(site), lit)})
	return &ast.BlockStmt{List: pre}
}

// varOf: the local variable an identifier denotes (use or definition).
func (rw *rewriter) varOf(e ast.Expr) *types.Var {
	x, ok := e.(*ast.Ident)
	if !ok {
		return nil
	}
	if v, ok := rw.info.Uses[x].(*types.Var); ok {
		return v
	}
	if v, ok := rw.info.Defs[x].(*types.Var); ok {
		return v
	}
	return nil
}

// isCaptured: is e a local variable that some function literal declared
// elsewhere refers to (so that it may be shared with another goroutine)?
func (rw *rewriter) isCaptured(e ast.Expr) bool {
	v := rw.varOf(e)
	return v != nil && rw.captured[v]
}

// loopVarLHS: the loop variable as assignment target of the per-iteration
// write; in race mode the write to a captured variable is recorded.
func (rw *rewriter) loopVarLHS(e ast.Expr) ast.Expr {
	if *raceMode && rw.isCaptured(e) {
		rw.noWrap[e] = true
		call := rw.simrt("W", &ast.UnaryExpr{Op: token.AND, X: e}, str(rw.file+":loopvar "+e.(*ast.Ident).Name+"@"+rw.posSite(e)))
		return &ast.StarExpr{X: call}
	}
	return e
}

// findCaptured fills rw.captured for one file.
func (rw *rewriter) findCaptured(f *ast.File) {
	ast.Inspect(f, func(n ast.Node) bool {
		lit, ok := n.(*ast.FuncLit)
		if !ok {
			return true
		}
		ast.Inspect(lit.Body, func(m ast.Node) bool {
			x, ok := m.(*ast.Ident)
			if !ok {
				return true
			}
			v, ok := rw.info.Uses[x].(*types.Var)
			if !ok || v.IsField() || v.Pkg() != rw.pkg || v.Parent() == rw.pkg.Scope() {
				return true
			}
			if v.Pos() < lit.Pos() || v.Pos() > lit.End() {
				rw.captured[v] = true
			}
			return true
		})
		return true
	})
}

func (rw *rewriter) rangeChan(s *ast.RangeStmt) ast.Stmt {
	ch := rw.name("ch")
	ok := rw.name("ok")
	var pre []ast.Stmt
	pre = append(pre, define([]ast.Expr{ch}, s.X))
	var recv ast.Stmt
	var key ast.Expr = id("_")
	if !isBlank(s.Key) {
		key = s.Key
	}
	if !isBlank(s.Key) {
		// one variable for the whole loop, assigned per iteration: the module's
		// language version (go 1.13) has per-loop, not per-iteration, loop variables
		pre = append(pre, &ast.DeclStmt{Decl: &ast.GenDecl{Tok: token.VAR, Specs: []ast.Spec{&ast.ValueSpec{Names: []*ast.Ident{ok}, Type: id("bool")}}}})
		if s.Tok == token.DEFINE {
			pre = append(pre, define([]ast.Expr{key}, rw.simrt("ZeroElem", ch)))
			pre = append(pre, assign([]ast.Expr{id("_")}, key))
		}
		recv = assign([]ast.Expr{rw.loopVarLHS(key), ok}, rw.simrt("Recv2", ch))
	} else {
		recv = define([]ast.Expr{key, ok}, rw.simrt("Recv2", ch))
	}
	brk := &ast.IfStmt{Cond: &ast.UnaryExpr{Op: token.NOT, X: ok}, Body: &ast.BlockStmt{List: []ast.Stmt{&ast.BranchStmt{Tok: token.BREAK}}}}
	body := append([]ast.Stmt{recv, brk}, s.Body.List...)
	loop := &ast.ForStmt{Body: &ast.BlockStmt{List: body}}
	pre = append(pre, loop)
	return &ast.BlockStmt{List: pre}
}

func (rw *rewriter) rangeMap(s *ast.RangeStmt) ast.Stmt {
	m := rw.name("m")
	k := rw.name("k")
	v := rw.name("v")
	ok := rw.name("ok")
	var pre []ast.Stmt
	pre = append(pre, define([]ast.Expr{m}, s.X))
	if *raceMode {
		pre = append(pre, &ast.ExprStmt{X: rw.simrt("MapR", m, str(rw.site("maprange")))})
	}
	useK, useV := !isBlank(s.Key), !isBlank(s.Value)
	if s.Tok == token.DEFINE {
		if useK {
			pre = append(pre, define([]ast.Expr{s.Key}, rw.simrt("ZeroKey", m)))
		}
		if useV {
			pre = append(pre, define([]ast.Expr{s.Value}, rw.simrt("ZeroVal", m)))
		}
	}
	var body []ast.Stmt
	idx := &ast.IndexExpr{X: m, Index: k}
	var lhs0 ast.Expr = id("_")
	if useV {
		lhs0 = v
	}
	body = append(body, define([]ast.Expr{lhs0, ok}, idx))
	body = append(body, &ast.IfStmt{Cond: &ast.UnaryExpr{Op: token.NOT, X: ok}, Body: &ast.BlockStmt{List: []ast.Stmt{&ast.BranchStmt{Tok: token.CONTINUE}}}})
	if useK {
		body = append(body, assign([]ast.Expr{rw.loopVarLHS(s.Key)}, k))
	}
	if useV {
		body = append(body, assign([]ast.Expr{rw.loopVarLHS(s.Value)}, v))
	}
	body = append(body, s.Body.List...)
	loop := &ast.RangeStmt{Key: id("_"), Value: k, Tok: token.DEFINE, X: rw.simrt("MapKeys", m), Body: &ast.BlockStmt{List: body}}
	pre = append(pre, loop)
	return &ast.BlockStmt{List: pre}
}

func (rw *rewriter) selectStmt(s *ast.SelectStmt) ast.Stmt {
	var pre []ast.Stmt
	var cases []ast.Expr
	var clauses []ast.Stmt
	hasDefault := false
	sel := rw.name("sel")
	idx := 0
	for _, c := range s.Body.List {
		cc := c.(*ast.CommClause)
		cc.Body = rw.stmtList(cc.Body)
		if cc.Comm == nil {
			hasDefault = true
			clauses = append(clauses, &ast.CaseClause{List: []ast.Expr{&ast.UnaryExpr{Op: token.SUB, X: &ast.BasicLit{Kind: token.INT, Value: "1"}}}, Body: cc.Body})
			continue
		}
		ch := rw.name("c")
		var body []ast.Stmt
		switch comm := cc.Comm.(type) {
		case *ast.SendStmt:
			rw.funcLits(comm.Chan)
			rw.funcLits(comm.Value)
			val := rw.name("v")
			pre = append(pre, define([]ast.Expr{ch}, comm.Chan), define([]ast.Expr{val}, comm.Value))
			cases = append(cases, rw.simrt("SendCase", ch, val))
		case *ast.ExprStmt:
			u := comm.X.(*ast.UnaryExpr)
			rw.funcLits(u.X)
			pre = append(pre, define([]ast.Expr{ch}, u.X))
			cases = append(cases, rw.simrt("RecvCase", ch))
		case *ast.AssignStmt:
			u := comm.Rhs[0].(*ast.UnaryExpr)
			rw.funcLits(u.X)
			pre = append(pre, define([]ast.Expr{ch}, u.X))
			cases = append(cases, rw.simrt("RecvCase", ch))
			fn := "SelRecv"
			if len(comm.Lhs) == 2 {
				fn = "SelRecv2"
			}
			body = append(body, &ast.AssignStmt{Lhs: comm.Lhs, Tok: comm.Tok, Rhs: []ast.Expr{rw.simrt(fn, ch, sel)}})
		default:
			die("%s: unsupported select comm clause", rw.file)
		}
		body = append(body, cc.Body...)
		clauses = append(clauses, &ast.CaseClause{List: []ast.Expr{&ast.BasicLit{Kind: token.INT, Value: strconv.Itoa(idx)}}, Body: body})
		idx++
	}
	hd := "false"
	if hasDefault {
		hd = "true"
	}
	args := append([]ast.Expr{id(hd)}, cases...)
	pre = append(pre, define([]ast.Expr{sel}, rw.simrt("Select", args...)))
	// a select whose branches all end in return / panic / goto is a terminating
	// statement; a switch is one only with a default clause
	clauses = append(clauses, &ast.CaseClause{Body: []ast.Stmt{&ast.ExprStmt{X: &ast.CallExpr{Fun: id("panic"), Args: []ast.Expr{&ast.BasicLit{Kind: token.STRING, Value: `"simrt.Select: no such case"`}}}}}})
	sw := &ast.SwitchStmt{Tag: &ast.SelectorExpr{X: sel, Sel: id("Index")}, Body: &ast.BlockStmt{List: clauses}}
	pre = append(pre, sw)
	return &ast.BlockStmt{List: pre}
}

// fixRecv2 rewrites `v, ok := <-ch` / `v, ok = <-ch` / `var v, ok = <-ch`.
func (rw *rewriter) fixRecv2(f *ast.File) {
	ast.Inspect(f, func(n ast.Node) bool {
		switch s := n.(type) {
		case *ast.AssignStmt:
			if len(s.Lhs) == 2 && len(s.Rhs) == 1 {
				if u, ok := s.Rhs[0].(*ast.UnaryExpr); ok && u.Op == token.ARROW {
					s.Rhs[0] = rw.simrt("Recv2", u.X)
				}
			}
		case *ast.ValueSpec:
			if len(s.Names) == 2 && len(s.Values) == 1 {
				if u, ok := s.Values[0].(*ast.UnaryExpr); ok && u.Op == token.ARROW {
					s.Values[0] = rw.simrt("Recv2", u.X)
				}
			}
		}
		return true
	})
}

var exprType = reflect.TypeOf((*ast.Expr)(nil)).Elem()
var callType = reflect.TypeOf((*ast.CallExpr)(nil))

// fixExprs replaces expression-level channel constructs anywhere in the file:
// <-ch, close(ch), len(ch).
func (rw *rewriter) fixExprs(root ast.Node) {
	ast.Inspect(root, func(n ast.Node) bool {
		if n == nil {
			return false
		}
		v := reflect.ValueOf(n)
		if v.Kind() != reflect.Ptr || v.IsNil() {
			return true
		}
		v = v.Elem()
		if v.Kind() != reflect.Struct {
			return true
		}
		for i := 0; i < v.NumField(); i++ {
			f := v.Field(i)
			if f.Type() == exprType {
				if f.IsNil() {
					continue
				}
				if r := rw.replaceExpr(f.Interface().(ast.Expr)); r != nil {
					f.Set(reflect.ValueOf(r))
				}
			} else if f.Type() == callType {
				if f.IsNil() {
					continue
				}
				if r, ok := rw.replaceExpr(f.Interface().(*ast.CallExpr)).(*ast.CallExpr); ok && r != nil {
					f.Set(reflect.ValueOf(r))
				}
			} else if f.Kind() == reflect.Slice && f.Type().Elem() == exprType {
				for j := 0; j < f.Len(); j++ {
					e := f.Index(j)
					if e.IsNil() {
						continue
					}
					if r := rw.replaceExpr(e.Interface().(ast.Expr)); r != nil {
						e.Set(reflect.ValueOf(r))
					}
				}
			}
		}
		return true
	})
}

func (rw *rewriter) replaceExpr(e ast.Expr) ast.Expr {
	switch x := e.(type) {
	case *ast.UnaryExpr:
		if x.Op == token.ARROW {
			return rw.simrt("Recv", x.X)
		}
	case *ast.CallExpr:
		if se, ok := x.Fun.(*ast.SelectorExpr); ok {
			if pk, ok := se.X.(*ast.Ident); ok {
				if pn, ok := rw.info.Uses[pk].(*types.PkgName); ok && pn.Imported().Path() == "reflect" && se.Sel.Name == "Select" {
					// channel operations through package reflect
					return rw.simrt("ReflectSelect", x.Args...)
				}
			}
			if sel := rw.info.Selections[se]; sel != nil && sel.Kind() == types.MethodVal {
				if named, ok := sel.Recv().(*types.Named); ok && named.Obj().Pkg() != nil && named.Obj().Pkg().Path() == "reflect" && named.Obj().Name() == "Value" {
					switch se.Sel.Name {
					case "Send", "Recv", "TrySend", "TryRecv", "Close":
						die("%s: channel operation through reflect.Value.%s is not supported by the instrumentation (%s)", rw.file, se.Sel.Name, rw.fset.Position(x.Pos()))
					}
				}
			}
		}
		if fn, ok := x.Fun.(*ast.Ident); ok && len(x.Args) == 1 {
			if _, isBuiltin := rw.info.Uses[fn].(*types.Builtin); isBuiltin {
				switch fn.Name {
				case "close":
					return rw.simrt("Close", x.Args[0])
				case "len":
					if rw.isChan(x.Args[0]) {
						return rw.simrt("Len", x.Args[0])
					}
				}
			}
		}
	}
	return nil
}

// --- race build (C12): memory-access instrumentation -------------------------------
//
// Tracked: every map operation (index, assignment, delete, len, range: the map
// is one location, as for Go's race detector), reads and writes of struct
// fields reached through a pointer, and the object graphs handed to
// encoding/json. Not tracked: locals, package-level variables, slices.

func (rw *rewriter) isFieldThroughPointer(sel *ast.SelectorExpr) bool {
	s := rw.info.Selections[sel]
	if s == nil || s.Kind() != types.FieldVal {
		return false
	}
	if s.Indirect() {
		return true
	}
	if t := rw.typeOf(sel.X); t != nil {
		if _, ok := t.Underlying().(*types.Pointer); ok {
			return true
		}
	}
	return false
}

func (rw *rewriter) raceExprs(f *ast.File) {
	writes := map[ast.Expr]bool{}
	skip := map[ast.Expr]bool{}
	fnOf := map[ast.Node]string{}
	_ = fnOf
	ast.Inspect(f, func(n ast.Node) bool {
		switch s := n.(type) {
		case *ast.AssignStmt:
			if s.Tok != token.DEFINE {
				for _, l := range s.Lhs {
					writes[unparen(l)] = true
				}
			} else {
				for _, l := range s.Lhs {
					skip[unparen(l)] = true // (being declared, or re-assigned in a := with new neighbours)
				}
			}
		case *ast.IncDecStmt:
			writes[unparen(s.X)] = true
		case *ast.UnaryExpr:
			if s.Op == token.AND {
				skip[unparen(s.X)] = true
			}
		case *ast.RangeStmt:
			if s.Tok == token.ASSIGN {
				if s.Key != nil {
					writes[unparen(s.Key)] = true
				}
				if s.Value != nil {
					writes[unparen(s.Value)] = true
				}
			} else {
				if s.Key != nil {
					skip[unparen(s.Key)] = true
				}
				if s.Value != nil {
					skip[unparen(s.Value)] = true
				}
			}
		}
		return true
	})
	done := map[ast.Expr]bool{}
	var repl func(e ast.Expr) ast.Expr
	repl = func(e ast.Expr) ast.Expr {
		if done[e] || skip[e] {
			return nil
		}
		switch x := e.(type) {
		case *ast.Ident:
			// package-level variable of the instrumented package, or a local
			// variable that a function literal captures
			if rw.noWrap[x] {
				return nil
			}
			v, ok := rw.info.Uses[x].(*types.Var)
			if !ok || v.IsField() || v.Pkg() != rw.pkg {
				return nil
			}
			kind := "var "
			if v.Parent() != rw.pkg.Scope() {
				if !rw.captured[v] {
					return nil
				}
				kind = "captured "
			}
			done[x] = true
			fn := "R"
			if writes[x] {
				fn = "W"
			}
			call := rw.simrt(fn, &ast.UnaryExpr{Op: token.AND, X: x}, str(rw.file+":"+kind+x.Name+"@"+rw.posSite(x)))
			return &ast.ParenExpr{X: &ast.StarExpr{X: call}}
		case *ast.StarExpr:
			// *p = v where p points to a struct: every field is written
			if !writes[x] {
				return nil
			}
			t := rw.typeOf(x.X)
			if t == nil {
				return nil
			}
			pt, ok := t.Underlying().(*types.Pointer)
			if !ok {
				return nil
			}
			if _, ok := pt.Elem().Underlying().(*types.Struct); !ok {
				return nil
			}
			done[x] = true
			x.X = rw.simrt("WStruct", x.X, str(rw.file+":*struct@"+rw.posSite(x)))
			return nil
		case *ast.SelectorExpr:
			if !rw.isFieldThroughPointer(x) {
				return nil
			}
			done[x] = true
			fn := "R"
			if writes[x] {
				fn = "W"
			}
			call := rw.simrt(fn, &ast.UnaryExpr{Op: token.AND, X: x}, str(rw.file+":"+rw.fieldSite(x)))
			return &ast.ParenExpr{X: &ast.StarExpr{X: call}}
		case *ast.IndexExpr:
			if rw.isSlice(x.X) {
				// an element of a slice is a location of its own (round 5)
				done[x] = true
				fn := "R"
				if writes[x] {
					fn = "W"
				}
				call := rw.simrt(fn, &ast.UnaryExpr{Op: token.AND, X: x}, str(rw.file+":"+strings.Replace(rw.exprSite(x.X), "map(", "slice(", 1)+"[i]"))
				return &ast.ParenExpr{X: &ast.StarExpr{X: call}}
			}
			if !rw.isMap(x.X) {
				return nil
			}
			done[x] = true
			fn := "MapR"
			if writes[x] {
				fn = "MapW"
			}
			x.X = rw.simrt(fn, x.X, str(rw.file+":"+rw.exprSite(x.X)))
			return nil
		case *ast.CallExpr:
			if fnid, ok := x.Fun.(*ast.Ident); ok {
				if _, isBuiltin := rw.info.Uses[fnid].(*types.Builtin); isBuiltin && len(x.Args) >= 1 && rw.isMap(x.Args[0]) {
					switch fnid.Name {
					case "delete":
						done[x] = true
						x.Args[0] = rw.simrt("MapW", x.Args[0], str(rw.file+":"+rw.exprSite(x.Args[0])))
					case "len":
						done[x] = true
						x.Args[0] = rw.simrt("MapR", x.Args[0], str(rw.file+":"+rw.exprSite(x.Args[0])))
					}
				}
			}
			if se, ok := x.Fun.(*ast.SelectorExpr); ok && !done[x] {
				if pk, ok := se.X.(*ast.Ident); ok {
					if pn, ok := rw.info.Uses[pk].(*types.PkgName); ok && pn.Imported().Path() == "encoding/json" {
						switch se.Sel.Name {
						case "Marshal", "MarshalIndent":
							done[x] = true
							x.Args[0] = rw.simrt("ReachR", x.Args[0], str(rw.file+":json."+se.Sel.Name+"@"+rw.posSite(x)))
						case "Unmarshal":
							done[x] = true
							x.Args[1] = rw.simrt("ReachW", x.Args[1], str(rw.file+":json.Unmarshal@"+rw.posSite(x)))
						}
					}
				}
			}
		}
		return nil
	}
	ast.Inspect(f, func(n ast.Node) bool {
		if n == nil {
			return false
		}
		v := reflect.ValueOf(n)
		if v.Kind() != reflect.Ptr || v.IsNil() {
			return true
		}
		// in-place edits for index / call expressions
		if e, ok := n.(ast.Expr); ok {
			switch e.(type) {
			case *ast.IndexExpr, *ast.CallExpr, *ast.StarExpr:
				repl(e)
			}
		}
		v = v.Elem()
		if v.Kind() != reflect.Struct {
			return true
		}
		for i := 0; i < v.NumField(); i++ {
			fl := v.Field(i)
			if fl.Type() == exprType {
				if fl.IsNil() {
					continue
				}
				if r := repl(fl.Interface().(ast.Expr)); r != nil {
					fl.Set(reflect.ValueOf(r))
				}
			} else if fl.Kind() == reflect.Slice && fl.Type().Elem() == exprType {
				for j := 0; j < fl.Len(); j++ {
					e := fl.Index(j)
					if e.IsNil() {
						continue
					}
					if r := repl(e.Interface().(ast.Expr)); r != nil {
						e.Set(reflect.ValueOf(r))
					}
				}
			}
		}
		return true
	})
}

func unparen(e ast.Expr) ast.Expr {
	for {
		p, ok := e.(*ast.ParenExpr)
		if !ok {
			return e
		}
		e = p.X
	}
}

func (rw *rewriter) posSite(n ast.Node) string {
	p := rw.fset.Position(n.Pos())
	return fmt.Sprintf("L%d", p.Line)
}

// fieldSite: "Type.field@Lline" - the line is only a hint for humans; known
// findings are matched on the part before '@'.
func (rw *rewriter) fieldSite(x *ast.SelectorExpr) string {
	tn := "?"
	if s := rw.info.Selections[x]; s != nil {
		t := s.Recv()
		if p, ok := t.Underlying().(*types.Pointer); ok {
			t = p.Elem()
		}
		if p, ok := t.(*types.Pointer); ok {
			t = p.Elem()
		}
		if n, ok := t.(*types.Named); ok {
			tn = n.Obj().Name()
		}
	}
	return tn + "." + x.Sel.Name + "@" + rw.posSite(x)
}

func (rw *rewriter) exprSite(e ast.Expr) string {
	var b bytes.Buffer
	format.Node(&b, rw.fset, e)
	str := b.String()
	if len(str) > 40 {
		str = str[:40]
	}
	return "map(" + str + ")@" + rw.posSite(e)
}

// countMapRanges counts range statements over maps or channels that are still
// present (every one must have been replaced).
func (rw *rewriter) countMapRanges(f *ast.File) int {
	n := 0
	ast.Inspect(f, func(x ast.Node) bool {
		if r, ok := x.(*ast.RangeStmt); ok {
			if rw.isMap(r.X) || rw.isChan(r.X) {
				n++
			}
		}
		return true
	})
	return n
}

// audit: forgotten-source check. No raw channel operation, go statement or
// select may survive the rewrite.
func (rw *rewriter) audit(f *ast.File) {
	ast.Inspect(f, func(x ast.Node) bool {
		bad := ""
		switch n := x.(type) {
		case *ast.SendStmt:
			bad = "send statement"
		case *ast.GoStmt:
			bad = "go statement"
		case *ast.SelectStmt:
			bad = "select statement"
		case *ast.UnaryExpr:
			if n.Op == token.ARROW {
				bad = "receive expression"
			}
		case *ast.CallExpr:
			if fn, ok := n.Fun.(*ast.Ident); ok && fn.Name == "close" {
				if _, isBuiltin := rw.info.Uses[fn].(*types.Builtin); isBuiltin {
					bad = "close()"
				}
			}
		}
		if bad != "" {
			die("%s: %s survived the rewrite (%s)", rw.file, bad, rw.fset.Position(x.Pos()))
		}
		return true
	})
}

var _ = sort.Strings
