// Command op is the native twin of the simulator's workload command: same
// command line, same content function. Used only where a generated Bash
// script has to be executed by the real bash (C20).
package main

import (
	"fmt"
	"os"
	"path/filepath"
	"strconv"
	"strings"

	"verif/simrt"
)

func main() {
	a := os.Args
	if len(a) < 2 {
		fmt.Fprintln(os.Stderr, "op: missing name")
		os.Exit(2)
	}
	name := a[1]
	var inputs, params, outputs, extras []string
	sep := " "
	pad, head := 0, 0
	for i := 2; i < len(a); i++ {
		next := func() string {
			i++
			if i >= len(a) {
				fmt.Fprintln(os.Stderr, "op: missing argument")
				os.Exit(2)
			}
			return a[i]
		}
		if strings.HasPrefix(a[i], "-i=") {
			inputs = append(inputs, a[i][3:])
			continue
		}
		switch a[i] {
		case "-i":
			inputs = append(inputs, next())
		case "-touchin", "-bg", "-bglate":
		case "-note":
			if i+1 < len(a) && !strings.HasPrefix(a[i+1], "-") {
				i++
			}
		case "-sep":
			sep = next()
		case "-j":
			for i+1 < len(a) && !strings.HasPrefix(a[i+1], "-") {
				i++
				for _, m := range strings.Split(a[i], sep) {
					if m != "" {
						inputs = append(inputs, m)
					}
				}
			}
		case "-p":
			params = append(params, next())
		case "-o":
			outputs = append(outputs, next())
		case "-x":
			extras = append(extras, next())
		case "-n":
			pad, _ = strconv.Atoi(next())
		case "-head":
			head, _ = strconv.Atoi(next())
		case "-say":
			k, _ := strconv.Atoi(next())
			fmt.Print(strings.Repeat("#", k))
		case "-barrier", "-bgroup":
			next()
		default:
			fmt.Fprintln(os.Stderr, "op: unknown flag", a[i])
			os.Exit(2)
		}
	}
	var data [][]byte
	for _, p := range inputs {
		b, err := os.ReadFile(p)
		if err != nil {
			fmt.Fprintf(os.Stderr, "op %s: cannot open input %s: %v\n", name, p, err)
			os.Exit(1)
		}
		if head > 0 && len(b) > head {
			b = b[:head]
		}
		data = append(data, b)
	}
	for idx, p := range outputs {
		os.MkdirAll(filepath.Dir(p), 0777)
		if err := os.WriteFile(p, simrt.OpContent(name, data, params, idx, pad), 0666); err != nil {
			fmt.Fprintf(os.Stderr, "op %s: %v\n", name, err)
			os.Exit(1)
		}
	}
	var rel []string
	for _, p := range inputs {
		a, _ := filepath.Abs(p)
		a = strings.TrimSuffix(a, ".fifo")
		if i := strings.LastIndex(a, "/work/"); i >= 0 {
			a = a[i+len("/work/"):]
		}
		rel = append(rel, a)
	}
	for _, p := range extras {
		os.MkdirAll(filepath.Dir(p), 0777)
		os.WriteFile(p, []byte("extra:"+simrt.TaskKey(name, rel, params)+"\n"), 0666)
	}
}
