// fsfid compares the simulated file system (through the os shim the
// instrumented scipipe uses) with the real one on generated sequences of the
// calls scipipe and its components make: MkdirAll, Mkdir, WriteFile, Create +
// Write, append-open, ReadFile, Rename (onto files, onto directories, into
// missing directories), Remove, RemoveAll, Stat, ReadDir. Compared after every
// call: error class; at the end: the whole tree with contents.
// (Development evidence for the stub, not a registered check.)
package main

import (
	"errors"
	"fmt"
	"os"
	"path/filepath"
	"sort"
	"strconv"
	"strings"
	"syscall"

	"verif/simrt"
	simos "verif/simos/os"
)

type op struct {
	kind string
	a, b string
	data string
}

func genOps(t *simrt.Tape) []op {
	names := []string{"a", "b", "d1", "d1/x", "d1/y", "d2/z", "d1/sub/w", "d2"}
	pick := func() string { return names[t.Choose(simrt.StGen, len(names), 0)] }
	n := 2 + t.Choose(simrt.StGen, 9, 0)
	var ops []op
	for i := 0; i < n; i++ {
		k := []string{"mkdirall", "mkdir", "writefile", "create", "append", "readfile", "rename", "remove", "removeall", "stat", "readdir"}[t.Choose(simrt.StGen, 11, 0)]
		o := op{kind: k, a: pick(), b: pick(), data: fmt.Sprintf("data%d\n", i)}
		ops = append(ops, o)
	}
	return ops
}

func class(err error) string {
	switch {
	case err == nil:
		return ""
	case errors.Is(err, os.ErrNotExist):
		return "notexist"
	case errors.Is(err, os.ErrExist):
		return "exist"
	case errors.Is(err, syscall.ENOTDIR):
		return "notdir"
	case errors.Is(err, syscall.EISDIR):
		return "isdir"
	case errors.Is(err, syscall.ENOTEMPTY):
		return "notempty"
	case errors.Is(err, syscall.EINVAL):
		return "inval"
	}
	return "other(" + err.Error() + ")"
}

func runReal(ops []op) ([]string, string) {
	dir, _ := os.MkdirTemp("", "fsfid.")
	defer os.RemoveAll(dir)
	p := func(s string) string { return filepath.Join(dir, s) }
	var res []string
	for _, o := range ops {
		var err error
		extra := ""
		switch o.kind {
		case "mkdirall":
			err = os.MkdirAll(p(o.a), 0777)
		case "mkdir":
			err = os.Mkdir(p(o.a), 0777)
		case "writefile":
			err = os.WriteFile(p(o.a), []byte(o.data), 0666)
		case "create":
			var f *os.File
			f, err = os.Create(p(o.a))
			if err == nil {
				f.WriteString(o.data)
				f.Close()
			}
		case "append":
			var f *os.File
			f, err = os.OpenFile(p(o.a), os.O_APPEND|os.O_CREATE|os.O_WRONLY, 0666)
			if err == nil {
				f.WriteString(o.data)
				f.Close()
			}
		case "readfile":
			var b []byte
			b, err = os.ReadFile(p(o.a))
			extra = string(b)
		case "rename":
			err = os.Rename(p(o.a), p(o.b))
		case "remove":
			err = os.Remove(p(o.a))
		case "removeall":
			err = os.RemoveAll(p(o.a))
		case "stat":
			var fi os.FileInfo
			fi, err = os.Stat(p(o.a))
			if err == nil {
				extra = fmt.Sprint(fi.IsDir())
				if !fi.IsDir() {
					extra += " " + strconv.FormatInt(fi.Size(), 10)
				}
			}
		case "readdir":
			var es []os.DirEntry
			es, err = os.ReadDir(p(o.a))
			for _, e := range es {
				extra += e.Name() + ","
			}
		}
		res = append(res, class(err)+"|"+extra)
	}
	var tree []string
	filepath.Walk(dir, func(q string, info os.FileInfo, err error) error {
		if err != nil || q == dir {
			return nil
		}
		rel, _ := filepath.Rel(dir, q)
		if info.IsDir() {
			tree = append(tree, rel+"/")
		} else {
			b, _ := os.ReadFile(q)
			tree = append(tree, rel+"="+string(b))
		}
		return nil
	})
	sort.Strings(tree)
	return res, strings.Join(tree, " ")
}

func runSim(ops []op, t *simrt.Tape) ([]string, string, string) {
	s := simrt.NewSim(t, simrt.Config{KillAt: -1})
	s.FS.PutFile("/work/.keep", nil)
	var res []string
	s.Run(func() {
		for _, o := range ops {
			var err error
			extra := ""
			switch o.kind {
			case "mkdirall":
				err = simos.MkdirAll(o.a, 0777)
			case "mkdir":
				err = simos.Mkdir(o.a, 0777)
			case "writefile":
				err = simos.WriteFile(o.a, []byte(o.data), 0666)
			case "create":
				var f *simos.File
				f, err = simos.Create(o.a)
				if err == nil {
					f.WriteString(o.data)
					f.Close()
				}
			case "append":
				var f *simos.File
				f, err = simos.OpenFile(o.a, simos.O_APPEND|simos.O_CREATE|simos.O_WRONLY, 0666)
				if err == nil {
					f.WriteString(o.data)
					f.Close()
				}
			case "readfile":
				var b []byte
				b, err = simos.ReadFile(o.a)
				extra = string(b)
			case "rename":
				err = simos.Rename(o.a, o.b)
			case "remove":
				err = simos.Remove(o.a)
			case "removeall":
				err = simos.RemoveAll(o.a)
			case "stat":
				var fi simos.FileInfo
				fi, err = simos.Stat(o.a)
				if err == nil {
					extra = fmt.Sprint(fi.IsDir())
					if !fi.IsDir() {
						extra += " " + strconv.FormatInt(fi.Size(), 10)
					}
				}
			case "readdir":
				var es []simos.DirEntry
				es, err = simos.ReadDir(o.a)
				for _, e := range es {
					extra += e.Name() + ","
				}
			}
			res = append(res, class(err)+"|"+extra)
		}
	})
	var tree []string
	for _, e := range simrt.List(s.FS.Root) {
		if !strings.HasPrefix(e.Path, "/work/") || e.Path == "/work/.keep" {
			continue
		}
		rel := strings.TrimPrefix(e.Path, "/work/")
		if e.Kind == simrt.KDir {
			tree = append(tree, rel+"/")
		} else {
			tree = append(tree, rel+"="+string(e.Data))
		}
	}
	sort.Strings(tree)
	return res, strings.Join(tree, " "), s.HarnessErr
}

func main() {
	n := 1000
	seed := uint64(1)
	if len(os.Args) > 1 {
		n, _ = strconv.Atoi(os.Args[1])
	}
	if len(os.Args) > 2 {
		seed, _ = strconv.ParseUint(os.Args[2], 10, 64)
	}
	bad := 0
	for i := 0; i < n; i++ {
		t := simrt.NewTape(seed*7919 + uint64(i))
		ops := genOps(t)
		rr, rt := runReal(ops)
		sr, st, herr := runSim(ops, t)
		ok := herr == "" && rt == st && len(rr) == len(sr)
		first := -1
		for k := range rr {
			if k < len(sr) && rr[k] != sr[k] {
				// same class of error is enough for "other(...)" texts
				if strings.HasPrefix(rr[k], "other(") && strings.HasPrefix(sr[k], "other(") {
					continue
				}
				ok = false
				if first < 0 {
					first = k
				}
			}
		}
		if !ok {
			bad++
			if bad <= 6 {
				fmt.Printf("DISAGREE case %d (harness error %q)\n", i, herr)
				for k, o := range ops {
					mark := "  "
					if k == first {
						mark = "->"
					}
					r, s := "", ""
					if k < len(rr) {
						r = rr[k]
					}
					if k < len(sr) {
						s = sr[k]
					}
					fmt.Printf(" %s %s %s %s   real %q sim %q\n", mark, o.kind, o.a, o.b, r, s)
				}
				fmt.Printf("   real tree: %s\n   sim  tree: %s\n", rt, st)
			}
		}
	}
	fmt.Printf("fsfid: %d sequences, %d disagree\n", n, bad)
	if bad > 0 {
		os.Exit(1)
	}
}
