// shellfid compares the simulator's mini shell with the real bash on
// generated scripts over the grammar the mini shell claims to support:
// lists (; and newline), && chains, pipelines, redirections, set -e /
// set -o pipefail, test, cd, mkdir, rm, cat, echo, true, false. Compared:
// exit status, resulting files and - when no diagnostics were printed -
// standard output. (Development evidence for the stub, not a registered check.)
package main

import (
	"bytes"
	"fmt"
	"os"
	"os/exec"
	"path/filepath"
	"sort"
	"strconv"
	"strings"

	"verif/simrt"
)

// pipeStage: 0 = not in a pipeline, 1 = a stage that is not the last (no
// output: a writer whose reader exits without reading may die of SIGPIPE in
// the real shell, which makes `set -o pipefail` results racy), 2 = last stage
func genCmd(t *simrt.Tape, pipeStage int) string {
	f := fmt.Sprintf("f%d", t.Choose(simrt.StGen, 3, 0))
	w := fmt.Sprintf("w%d", t.Choose(simrt.StGen, 5, 0))
	d := fmt.Sprintf("d%d", t.Choose(simrt.StGen, 2, 0))
	if pipeStage == 1 {
		return []string{"true", "false"}[t.Choose(simrt.StGen, 2, 0)]
	}
	if pipeStage == 2 {
		return []string{"true", "false", "echo " + w}[t.Choose(simrt.StGen, 3, 0)]
	}
	switch t.Choose(simrt.StGen, 14, 0) {
	case 13:
		return "exit " + strconv.Itoa(t.Choose(simrt.StGen, 3, 0))
	case 0:
		return "true"
	case 1:
		return "false"
	case 2:
		return "echo " + w
	case 3:
		return "echo " + w + " > " + f
	case 4:
		return "echo " + w + " >> " + f
	case 5:
		return "cat " + f
	case 6:
		return "test -e " + f
	case 7:
		return "test ! -e " + f
	case 8:
		return "test -s " + f
	case 9:
		return "mkdir -p " + d
	case 10:
		return "cd " + d
	case 11:
		return "rm -f " + f
	default:
		return "test -d " + d
	}
}

func genScript(t *simrt.Tape) string {
	var b strings.Builder
	n := 1 + t.Choose(simrt.StGen, 6, 0)
	for i := 0; i < n; i++ {
		if t.Choose(simrt.StGen, 5, 0) == 1 {
			b.WriteString([]string{"set -e", "set -o pipefail", "set -eo pipefail", "set +e", "set -euo pipefail"}[t.Choose(simrt.StGen, 5, 0)])
			b.WriteString([]string{"; ", "\n"}[t.Choose(simrt.StGen, 2, 0)])
		}
		k := 1 + t.Choose(simrt.StGen, 3, 0)
		for j := 0; j < k; j++ {
			if j > 0 {
				b.WriteString([]string{" && ", " && ", " || "}[t.Choose(simrt.StGen, 3, 0)])
			}
			m := 1
			if t.Choose(simrt.StGen, 4, 0) == 1 {
				m = 2 + t.Choose(simrt.StGen, 2, 0)
			}
			for q := 0; q < m; q++ {
				if q > 0 {
					b.WriteString(" | ")
				}
				st := 0
				if m > 1 {
					st = 1
					if q == m-1 {
						st = 2
					}
				}
				b.WriteString(genCmd(t, st))
			}
		}
		if i < n-1 {
			b.WriteString([]string{"; ", "\n"}[t.Choose(simrt.StGen, 2, 0)])
		}
	}
	if t.Choose(simrt.StGen, 6, 0) == 1 {
		b.WriteString("; exit " + strconv.Itoa(t.Choose(simrt.StGen, 4, 0)))
	}
	return b.String()
}

type result struct {
	status int
	out    string
	files  map[string]string
	diag   bool
}

func runSim(script string, t *simrt.Tape) (r result, harnessErr string) {
	s := simrt.NewSim(t, simrt.Config{KillAt: -1})
	s.FS.PutFile("/work/.keep", nil)
	var out []byte
	var err error
	s.Run(func() { out, err = s.Shell.Exec(script) })
	if s.HarnessErr != "" {
		return r, s.HarnessErr
	}
	if ee, ok := err.(*simrt.ExitError); ok {
		r.status = ee.Code
	}
	r.out = string(out)
	r.files = map[string]string{}
	for _, e := range simrt.List(s.FS.Root) {
		if !strings.HasPrefix(e.Path, "/work/") || e.Path == "/work/.keep" {
			continue
		}
		rel := strings.TrimPrefix(e.Path, "/work/")
		if e.Kind == simrt.KDir {
			r.files[rel+"/"] = ""
		} else {
			r.files[rel] = string(e.Data)
		}
	}
	for _, l := range strings.Split(r.out, "\n") {
		if strings.HasPrefix(l, "cat:") || strings.HasPrefix(l, "bash:") || strings.HasPrefix(l, "rm:") {
			r.diag = true
		}
	}
	return r, ""
}

func runReal(script string) result {
	dir, _ := os.MkdirTemp("", "shellfid.")
	defer os.RemoveAll(dir)
	cmd := exec.Command("bash", "-c", script)
	cmd.Dir = dir
	var so, se bytes.Buffer
	cmd.Stdout, cmd.Stderr = &so, &se
	err := cmd.Run()
	r := result{out: so.String(), files: map[string]string{}, diag: se.Len() > 0}
	if ee, ok := err.(*exec.ExitError); ok {
		r.status = ee.ExitCode()
	}
	filepath.Walk(dir, func(p string, info os.FileInfo, err error) error {
		if err != nil || p == dir {
			return nil
		}
		rel, _ := filepath.Rel(dir, p)
		if info.IsDir() {
			r.files[rel+"/"] = ""
		} else {
			b, _ := os.ReadFile(p)
			r.files[rel] = string(b)
		}
		return nil
	})
	return r
}

func filesStr(m map[string]string) string {
	var k []string
	for p := range m {
		k = append(k, p)
	}
	sort.Strings(k)
	var b strings.Builder
	for _, p := range k {
		fmt.Fprintf(&b, "%s=%q ", p, m[p])
	}
	return b.String()
}

func main() {
	n := 300
	seed := uint64(1)
	if len(os.Args) > 1 {
		n, _ = strconv.Atoi(os.Args[1])
	}
	if len(os.Args) > 2 {
		seed, _ = strconv.ParseUint(os.Args[2], 10, 64)
	}
	bad, skipped := 0, 0
	for i := 0; i < n; i++ {
		t := simrt.NewTape(seed*1000003 + uint64(i))
		script := genScript(t)
		sim, herr := runSim(script, t)
		if herr != "" {
			skipped++
			continue
		}
		real := runReal(script)
		ok := sim.status == real.status && filesStr(sim.files) == filesStr(real.files)
		if ok && !sim.diag && !real.diag && sim.out != real.out {
			ok = false
		}
		if !ok {
			bad++
			if bad <= 5 {
				fmt.Printf("DISAGREE case %d script:\n%s\n  sim : status %d out %q files %s\n  bash: status %d out %q files %s\n", i, script, sim.status, sim.out, filesStr(sim.files), real.status, real.out, filesStr(real.files))
			}
		}
	}
	fmt.Printf("shellfid: %d scripts, %d disagree, %d outside the stub's grammar\n", n, bad, skipped)
	if bad > 0 {
		os.Exit(1)
	}
}
