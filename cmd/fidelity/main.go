// Command fidelity runs one exported case (workflow IR + reference result)
// against the REAL, uninstrumented scipipe library on the real Go runtime,
// with the real bash and the native `op`, in a fresh temp directory, and
// compares the files it produces with the reference. Development evidence
// for the stubs and the reference model ("./check selftest fidelity"); it
// decides no property.
package main

import (
	"encoding/json"
	"fmt"
	"os"
	"path/filepath"
	"sort"
	"strings"

	sp "github.com/scipipe/scipipe"
	"github.com/scipipe/scipipe/components"
)

type Edge struct {
	Node int
	Port string
}
type InSpec struct {
	Name string
	From []Edge
	Join bool
	Sep  string
}
type ParamSpec struct {
	Name string
	Vals []string
	From *Edge
}
type OutSpec struct {
	Name    string
	Pattern string
	Stream  bool
}
type Node struct {
	Name    string
	Kind    int
	Files   []string
	Vals    []string
	Ins     []InSpec
	Params  []ParamSpec
	Outs    []OutSpec
	Cores   int
	Custom  int
	Extras  []string
	PadTo   int
	TagKey  string
	TagArgs []string
}
type WF struct {
	Name     string
	Nodes    []Node
	MaxTasks int
	Bufsize  int
	Sources  map[string]string
	Dirs     []string
	RunTo    []string
}
type Export struct {
	WF    WF
	Files map[string]string // abs sim path -> content
	Keys  []string
}

const (
	KFileSrc = iota
	KParamSrc
	KProc
	KMapToTags
	KStreamToSub
)

func commandPattern(n *Node) string {
	var b strings.Builder
	b.WriteString("op " + n.Name)
	for _, in := range n.Ins {
		if in.Join {
			if in.Sep == " " {
				fmt.Fprintf(&b, " -j {i:%s|join: }", in.Name)
			} else {
				fmt.Fprintf(&b, " -sep %s -j {i:%s|join:%s}", in.Sep, in.Name, in.Sep)
			}
		} else {
			fmt.Fprintf(&b, " -i {i:%s}", in.Name)
		}
	}
	for _, p := range n.Params {
		fmt.Fprintf(&b, " -p %s={p:%s}", p.Name, p.Name)
	}
	for _, o := range n.Outs {
		if o.Stream {
			fmt.Fprintf(&b, " -o {os:%s}", o.Name)
		} else {
			fmt.Fprintf(&b, " -o {o:%s}", o.Name)
		}
	}
	for _, k := range n.TagArgs {
		fmt.Fprintf(&b, " -p tg_%s={t:%s}", strings.ReplaceAll(k, ".", "_"), k)
	}
	for _, x := range n.Extras {
		fmt.Fprintf(&b, " -x %s", x)
	}
	if n.PadTo != 0 {
		fmt.Fprintf(&b, " -n %d", n.PadTo)
	}
	return b.String()
}

type porter interface {
	OutPort(string) *sp.OutPort
	OutParamPort(string) *sp.OutParamPort
}
type adapter struct {
	out func(string) *sp.OutPort
	in  func(string) *sp.InPort
}

func (a *adapter) OutPort(n string) *sp.OutPort           { return a.out(n) }
func (a *adapter) OutParamPort(n string) *sp.OutParamPort { return nil }

func tagValue(path string) string {
	b := filepath.Base(path)
	return "t_" + strings.ReplaceAll(b, ".", "_")
}

func main() {
	if len(os.Args) < 3 {
		fmt.Println("usage: fidelity <case.json> <workdir>")
		os.Exit(2)
	}
	raw, err := os.ReadFile(os.Args[1])
	if err != nil {
		fmt.Println(err)
		os.Exit(2)
	}
	var ex Export
	if err := json.Unmarshal(raw, &ex); err != nil {
		fmt.Println(err)
		os.Exit(2)
	}
	root := os.Args[2]
	work := filepath.Join(root, "work")
	os.MkdirAll(work, 0777)
	for _, d := range ex.WF.Dirs {
		os.MkdirAll(filepath.Join(root, d), 0777)
	}
	for p, c := range ex.WF.Sources {
		fp := filepath.Join(work, p)
		os.MkdirAll(filepath.Dir(fp), 0777)
		os.WriteFile(fp, []byte(c), 0666)
	}
	if err := os.Chdir(work); err != nil {
		fmt.Println(err)
		os.Exit(2)
	}
	if ex.WF.Bufsize > 0 {
		os.Setenv("SCIPIPE_BUFSIZE", fmt.Sprint(ex.WF.Bufsize))
	}
	sp.InitLogError()
	w := &ex.WF
	wf := sp.NewWorkflow(w.Name, w.MaxTasks)
	procs := make([]porter, len(w.Nodes))
	plain := make([]*sp.Process, len(w.Nodes))
	for i := range w.Nodes {
		n := &w.Nodes[i]
		switch n.Kind {
		case KFileSrc:
			procs[i] = components.NewFileSource(wf, n.Name, n.Files...)
		case KParamSrc:
			procs[i] = components.NewParamSource(wf, n.Name, n.Vals...)
		case KProc:
			p := wf.NewProc(n.Name, commandPattern(n))
			for _, o := range n.Outs {
				p.SetOut(o.Name, o.Pattern)
			}
			if n.Cores > 0 {
				p.CoresPerTask = n.Cores
			}
			procs[i] = p
			plain[i] = p
		case KMapToTags:
			key := n.TagKey
			p := components.NewMapToTags(wf, n.Name, func(ip *sp.FileIP) map[string]string {
				return map[string]string{key: tagValue(ip.Path())}
			})
			procs[i] = &adapter{out: func(string) *sp.OutPort { return p.Out() }, in: func(string) *sp.InPort { return p.In() }}
		case KStreamToSub:
			p := components.NewStreamToSubStream(wf, n.Name)
			procs[i] = &adapter{out: func(string) *sp.OutPort { return p.OutSubStream() }, in: func(string) *sp.InPort { return p.In() }}
		default:
			fmt.Println("SKIP unsupported node kind")
			os.Exit(3)
		}
	}
	for i := range w.Nodes {
		n := &w.Nodes[i]
		for _, in := range n.Ins {
			for _, e := range in.From {
				up := procs[e.Node].OutPort(e.Port)
				if n.Kind == KProc {
					plain[i].In(in.Name).From(up)
				} else {
					procs[i].(*adapter).in(in.Name).From(up)
				}
			}
		}
		if n.Kind == KProc {
			for _, ps := range n.Params {
				if ps.From != nil {
					plain[i].InParam(ps.Name).From(procs[ps.From.Node].OutParamPort(ps.From.Port))
				} else {
					plain[i].InParam(ps.Name).FromStr(ps.Vals...)
				}
			}
		}
	}
	if len(w.RunTo) > 0 {
		wf.RunTo(w.RunTo...)
	} else {
		wf.Run()
	}
	// compare
	bad := 0
	var paths []string
	for p := range ex.Files {
		paths = append(paths, p)
	}
	sort.Strings(paths)
	for _, p := range paths {
		got, err := os.ReadFile(filepath.Join(root, p))
		if err != nil {
			fmt.Printf("MISSING %s\n", p)
			bad++
			continue
		}
		if string(got) != ex.Files[p] {
			fmt.Printf("DIFF %s: real %q reference %q\n", p, got, ex.Files[p])
			bad++
		}
	}
	// nothing unexpected: every regular file below work/ is expected, a source, an audit file or the log
	filepath.Walk(work, func(p string, fi os.FileInfo, err error) error {
		if err != nil || fi.IsDir() {
			return nil
		}
		rel := "/" + strings.TrimPrefix(p, root+"/")
		relw := strings.TrimPrefix(rel, "/work/")
		if _, ok := ex.Files[rel]; ok {
			return nil
		}
		if _, ok := ex.WF.Sources[relw]; ok {
			return nil
		}
		if strings.HasSuffix(rel, ".audit.json") || strings.HasPrefix(relw, "log/") {
			return nil
		}
		fmt.Printf("UNEXPECTED %s\n", rel)
		bad++
		return nil
	})
	if bad > 0 {
		os.Exit(1)
	}
	fmt.Println("OK", len(paths), "files")
}
