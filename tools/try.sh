#!/bin/bash
# tools/try.sh <prop> [seed] [budget] : one worker, short summary
W=${WORKER:-/verif/bin/worker}
[ -x "$W" ] || { echo "no worker binary"; exit 2; }
timeout 600 $W run -prop $1 -seed ${2:-1} -budget ${3:-4} -replaydir /tmp/rp -shrink ${SHRINK:-10} -known /verif/known_findings.json > /tmp/try.json 2>/tmp/try.err || { echo "worker failed"; tail -30 /tmp/try.err; exit 2; }
python3 - <<'PY'
import json
r=json.load(open('/tmp/try.json'))
print('cases',r['cases'],'incs',r['incarnations'],'steps',r['steps'],'crash',r['crash_states'],'inconc',r['inconclusive'],r['inconclusive_why'],'hashes',len(r['nontrivial_hashes'] or []),'masked',r['masked_by_known_finding'])
print('faults',r['faults']); print('probes',r['probes'])
for v in r['violations'] or []: print('VIOL',v)
if r.get('error'): print('ERROR',r['error'])
PY
