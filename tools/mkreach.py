#!/usr/bin/env python3
"""tools/mkreach.py : records, from the evidence files of full quick runs on the unchanged tree, which
fault kinds and probes each check reaches comfortably (count >= 100 in a 30 s quick run) into
reach_expected.json; later runs report the ones that stay at zero (coverage.reach_expected_but_zero)."""
import json, glob, os
V = os.path.dirname(os.path.dirname(os.path.abspath(__file__)))
out = {}
for f in sorted(glob.glob(os.path.join(V, "evidence", "*.json"))):
    e = json.load(open(f))
    c = e["coverage"]
    if e["tier"] != "quick" or e["wall_s"] < 25:
        print("skipping", f, "(not a full quick run)")
        continue
    names = [k for k, v in list(c.get("faults_fired", {}).items()) + list(c.get("probes", {}).items()) if v >= 100]
    out[e["property_id"]] = sorted(set(names))
json.dump(out, open(os.path.join(V, "reach_expected.json"), "w"), indent=1)
print({k: len(v) for k, v in out.items()})
