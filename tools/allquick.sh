#!/bin/bash
# run every claimed check's quick tier with a short budget; print one line each
cd /verif
for p in $(python3 -c "import json; print(' '.join(c['property_id'] for c in json.load(open('MANIFEST.json'))['checks']))"); do
  out=$(VERIF_BUDGET_S=${1:-8} ./check $p quick 2>&1); rc=$?
  echo "$p rc=$rc $(echo "$out" | grep -c '^KNOWN-FINDING') known | $(echo "$out" | head -1 | cut -c1-150)"
  [ $rc -ne 0 ] && echo "$out" | tail -5 | cut -c1-500
done
