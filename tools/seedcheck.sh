#!/bin/bash
# tools/seedcheck.sh <worktree> <name> <budget> <prop>... : confirm a sub-agent's mutant (build, test-suite, demo both ways), run checks against it
WT=$1; NAME=$2; BUD=$3; shift 3
D=$WT/out/$NAME
export GOFLAGS=-mod=mod GOPROXY=off GOSUMDB=off GOTOOLCHAIN=local
cd $WT || exit 2
git checkout -q -- . ; git clean -fdq -e out >/dev/null
echo "### $NAME"
( cd $D/demo && timeout 600 bash run.sh >/tmp/demo.out 2>&1 ); r0=$?
echo "demo without patch: rc=$r0"
git apply $D/patch.diff || { echo "PATCH DOES NOT APPLY"; exit 2; }
go build ./... || { echo "DOES NOT BUILD"; git checkout -q -- .; exit 2; }
go test -vet=off -count=1 -json ./... 2>/dev/null | python3 -c "
import sys,json
res={}
for l in sys.stdin:
    try: e=json.loads(l)
    except: continue
    if e.get('Test') and e.get('Action') in('pass','fail'): res[e['Package']+'::'+e['Test']]=e['Action']
base=json.load(open('/root/.vp/BASELINE.json'))['stable_pass']
bad=[t for t in base if res.get(t)!='pass']
print('test-suite with patch: stable pass',len(base)-len(bad),'/',len(base),'bad:',bad)
"
git clean -fdq -e out >/dev/null; find $WT/out -maxdepth 1 -type f -delete; rm -rf /tmp/TestExtraFiles* 2>/dev/null
( cd $D/demo && timeout 600 bash run.sh >/tmp/demo.out 2>&1 ); r1=$?
echo "demo with patch: rc=$r1"
git clean -fdq -e out >/dev/null
cd /verif
for p in "$@"; do
  out=$(VERIF_REPO=$WT VERIF_BUDGET_S=$BUD ./check $p quick 2>&1); rc=$?
  echo "  $p rc=$rc | $(echo "$out" | grep -v '^KNOWN-FINDING' | sed -n 2p | cut -c1-300)"
  [ $rc -eq 2 ] && echo "$out" | tail -3 | cut -c1-400
done
cd $WT; git checkout -q -- . ; git clean -fdq -e out >/dev/null
git -C /verif checkout -- evidence 2>/dev/null; rm -f /verif/replays/*.json
