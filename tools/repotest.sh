#!/bin/bash
# runs scipipe's own test-suite on /repo's HEAD in a scratch worktree and compares with the baseline
export GOFLAGS=-mod=mod GOPROXY=off GOSUMDB=off GOTOOLCHAIN=local
rm -rf /tmp/wt-test; git -C /repo worktree add -q /tmp/wt-test HEAD || exit 2
cd /tmp/wt-test
go test -vet=off -count=1 -json ./... 2>/dev/null | python3 -c "
import sys,json
res={}
for l in sys.stdin:
    try: e=json.loads(l)
    except: continue
    if e.get('Test') and e.get('Action') in('pass','fail'): res[e['Package']+'::'+e['Test']]=e['Action']
base=json.load(open('/root/.vp/BASELINE.json'))['stable_pass']
bad=[t for t in base if res.get(t)!='pass']
print('stable pass:',len(base)-len(bad),'/',len(base),'bad:',bad)
"
cd /; git -C /repo worktree remove --force /tmp/wt-test; rm -rf /tmp/TestExtraFiles* 2>/dev/null
