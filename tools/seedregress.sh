#!/bin/bash
# tools/seedregress.sh [budget] [filter] [props] : re-run every kept seeded change against the first check that is recorded to catch it
# (props: optional comma list - only changes whose first catching check is one of these)
BUD=${1:-20}; FILT=${2:-}; PROPS=${3:-}
V=$(cd "$(dirname "$0")/.." && pwd)
cd $V
for d in seeded/*${FILT}*/; do
  id=$(basename $d)
  prop=$(python3 -c "import json; m=json.load(open('$d/meta.json')); print((m.get('caught_by') or ['?'])[0])")
  [ "$prop" = "?" ] && { echo "$id: no check recorded"; continue; }
  if [ -n "$PROPS" ] && ! echo ",$PROPS," | grep -q ",$prop,"; then continue; fi
  WT=$(mktemp -d /tmp/sr.XXXXXX); rmdir $WT
  git -C /repo worktree add -q --detach $WT HEAD || { echo "$id: worktree failed"; continue; }
  if ! git -C $WT apply $PWD/$d/patch.diff 2>/dev/null; then echo "$id: PATCH NO LONGER APPLIES"; git -C /repo worktree remove --force $WT; continue; fi
  out=$(VERIF_REPO=$WT VERIF_BUDGET_S=$BUD ./check $prop quick 2>&1); rc=$?
  echo "$id: $prop rc=$rc $(echo "$out" | grep -v '^KNOWN-FINDING' | sed -n 2p | cut -c1-100)"
  git -C /repo worktree remove --force $WT
done
git -C $V checkout -- evidence 2>/dev/null; rm -f $V/replays/*.json
