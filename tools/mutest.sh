#!/bin/bash
# tools/mutest.sh <patch.diff> <budget_s> <prop>...  : apply a patch to a scratch worktree of /repo, run the given checks against it
PATCH=$(readlink -f $1); BUD=$2; shift 2
WT=$(mktemp -d /tmp/mt.XXXXXX); rmdir $WT
git -C /repo worktree add -q --detach $WT HEAD || exit 2
if ! git -C $WT apply $PATCH; then echo "PATCH DOES NOT APPLY"; git -C /repo worktree remove --force $WT; exit 2; fi
cd /verif
for p in "$@"; do
  out=$(VERIF_REPO=$WT VERIF_BUDGET_S=$BUD ./check $p quick 2>&1); rc=$?
  echo "  $p rc=$rc | $(echo "$out" | grep -v '^KNOWN-FINDING' | sed -n 2p | cut -c1-260)"
  [ $rc -eq 2 ] && echo "$out" | tail -3 | cut -c1-400
done
git -C /repo worktree remove --force $WT
# evidence files were rewritten by runs against a mutant: restore them
git -C /verif checkout -- evidence 2>/dev/null
rm -f /verif/replays/*.json
