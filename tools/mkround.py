#!/usr/bin/env python3
"""tools/mkround.py <round-no> <ID>... : create a scratch worktree /tmp/m<r>-<ID> of /repo and a prompt
/tmp/prompt<r>-<ID>.txt for a sub-agent (property text + summaries of earlier sub-agent changes only)."""
import json, glob, subprocess, sys, os
r = sys.argv[1]
props = {json.loads(l)['id']: json.loads(l) for l in open('/verif/properties.jsonl')}
tpl = open('/verif/tools/mutant_prompt.txt').read()
for pid in sys.argv[2:]:
    p = props[pid]
    wt = '/tmp/m%s-%s' % (r, pid)
    if not os.path.exists(wt):
        subprocess.check_call(['git', '-C', '/repo', 'worktree', 'add', '--detach', wt, 'HEAD'], stdout=subprocess.DEVNULL, stderr=subprocess.DEVNULL)
    t = tpl.replace('{WT}', wt).replace('{ID}', pid).replace('{TITLE}', p['title']).replace('{STATEMENT}', p['statement']).replace('{QUANT}', p['quantifier']['text'])
    earlier = []
    for f in sorted(glob.glob('/verif/seeded/*/meta.json')):
        m = json.load(open(f))
        if m['property'] == pid:
            earlier.append('- %s: %s' % (m['name'], m['summary'][:260]))
    t += ("\n\nIMPORTANT - this is round %s. Earlier contributors already delivered the following changes for this property; do NOT repeat them or close variants of them (same site + same idea). Look for different mechanisms, different code sites (also in components/ and in less central files), different triggering conditions; at least one of your changes should depend on timing / goroutine interleaving or on a failure or kill at a particular point rather than on the shape of the input alone:\n" % r) + "\n".join(earlier)
    if int(r) >= 6:
        t += "\n\nHints for finding NEW ground (earlier rounds have covered the obvious sites): (a) public API variants that are rarely used (OutPort.To, InPort.Disconnect, FromInt/FromFloat, SetSink, AddProcs, NewWorkflowCustomLogFile, RunToRegex/RunToProcs, Process.SetOutFunc, CustomExecute helpers such as FileIP.Open/OpenTemp/Write/Param/Size), (b) the interplay of two features (streaming + sub-streams, tagging components + RunTo, Go functions + extra files, several workflows in one program, re-runs + tags), (c) behaviour that only differs under a particular timing or after a failure/kill at a particular point, (d) the bundled components and cmd/scipipe where the property touches them."
    t += "\n\nDo NOT use `git stash` (worktrees share the stash with other contributors); use only `git diff`, `git apply` and `git checkout -- .` inside your worktree."
    open('/tmp/prompt%s-%s.txt' % (r, pid), 'w').write(t)
    print(wt)
