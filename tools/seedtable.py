#!/usr/bin/env python3
"""Rewrites the table of seeded changes in DESIGN.md (between the markers) from seeded/*/meta.json."""
import json, glob, os, re
V = os.path.dirname(os.path.dirname(os.path.abspath(__file__)))
rows = []
for m in sorted(glob.glob(os.path.join(V, "seeded", "*", "meta.json"))):
    d = json.load(open(m))
    sid = os.path.basename(os.path.dirname(m))
    summ = d.get("summary", "").replace("|", "/").replace("\n", " ")
    if len(summ) > 230:
        summ = summ[:227] + "..."
    hist = d.get("history", "").replace("|", "/")
    rows.append("| `%s` | %s | %s | %s | %s |" % (sid, d.get("property", ""), summ, ", ".join(d.get("caught_by", [])) or "**none**", hist))
table = "| seeded change | written for | what it does | caught by (quick tier) | history |\n|---|---|---|---|---|\n" + "\n".join(rows) + "\n"
p = os.path.join(V, "DESIGN.md")
s = open(p).read()
a, b = "<!-- SEEDED-TABLE-BEGIN -->", "<!-- SEEDED-TABLE-END -->"
if a in s:
    s = s[:s.index(a) + len(a)] + "\n" + table + s[s.index(b):]
else:
    s += "\n" + a + "\n" + table + b + "\n"
open(p, "w").write(s)
print(len(rows), "rows")
