#!/usr/bin/env python3
"""tools/regenknown.py : re-record the replay files of the known findings (needed whenever the
simulator's scheduling semantics change: old tapes then describe other schedules). For each
known finding the worker runs with a known-findings file that lacks just that entry, so the
first reported violation with its signature is the finding itself."""
import json, os, subprocess, sys, tempfile, fnmatch, shutil
V = '/verif'
known = json.load(open(V + '/known_findings.json'))
race = {'C12'}
for k in known:
    if k['status'] != 'known' or not k.get('replay'):
        continue
    rest = [x for x in known if x is not k]
    tmp = tempfile.mkdtemp(prefix='rk.')
    kf = os.path.join(tmp, 'known.json')
    json.dump(rest, open(kf, 'w'))
    worker = V + '/bin/worker'
    if k['property'] in race:
        from importlib.machinery import SourceFileLoader
        chk = SourceFileLoader('chk', V + '/check').load_module()
        worker, _ = chk.build(True)
    done = False
    for seed in range(1, 8):
        if worker is None:
            break
        r = subprocess.run([worker, 'run', '-prop', k['property'], '-seed', str(seed), '-budget', '8', '-known', kf, '-replaydir', tmp, '-shrink', '10'], capture_output=True, text=True)
        try:
            res = json.loads(r.stdout)
        except Exception:
            continue
        for v in res.get('violations') or []:
            clauses = k.get('clauses') or [k.get('clause')]
            sigs = k['sig'].split('|')
            if v['clause'] in clauses and any(fnmatch.fnmatch(v['sig'], s) or v['sig'] == s for s in sigs):
                shutil.copy(v['replay'], os.path.join(V, k['replay']))
                print(k['id'], 're-recorded from seed', seed, v['clause'], v['sig'])
                done = True
                break
        if done:
            break
    if not done:
        print(k['id'], 'NOT re-recorded')
    shutil.rmtree(tmp, ignore_errors=True)
