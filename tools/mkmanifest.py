#!/usr/bin/env python3
"""Regenerates MANIFEST.json from the table below (kept in one place so the
claimed set, techniques and not-applicable list stay consistent)."""
import json, os, subprocess

V = os.path.dirname(os.path.dirname(os.path.abspath(__file__)))

TECH = "deterministic simulation with fault injection: whole workflow program run on a seeded cooperative scheduler / simulated fs+shell+clock; "

CLAIMED = {
 "C01": dict(level="fault_enumeration", tech=TECH + "for each sampled schedule every distinct crash state (fs after each journalled mutation) is enumerated and checked; one or two command failures (exit before/partial/after, signal, omitted output, && list whose middle step fails) injected from the tape; FileSplitter and a second file system (EXDEV) among the shapes; round 5: streaming pairs under the enumeration, consumers that close the stream early (EPIPE, 128+SIGPIPE); round 6: a command that omits a declared output counts as a failed task, very long command lines, splitter parts predicted from the input alone, Go-level writes as scheduling points; round 7: Go functions through sp.ExecCmd and with SetOut-only ports, outputs named *.log",
     text="Per sampled (workflow, schedule, optional command failure) the list of distinct durable states a kill can leave is enumerated completely and each is checked: a file at a declared final path implies an earlier exit(0) of its task and complete bytes; all other new files are audit/log/extra files or below _scipipe_tmp*. Exhaustive along each schedule, sampled across schedules and workflows.",
     note="Crash model: process group killed between two file-system calls (completed calls persist). Trusted: simulator fs/shell, reference model. Parent-relative/absolute outputs only with existing destination directory.", ref="9 C01"),
 "C02": dict(level="exploration", tech=TECH + "seeded search over workflows x subsets of pre-existing output files (arbitrary bytes) x schedules, plus the history run/run-again; oracle on execution trace, (inode, mtime, bytes) and reference evaluated with the pre-existing bytes; round 5: windows of EMFILE on descriptor-opening calls (safety clauses only), outputs whose path equals the input path; round 6: twin instances re-running a finished workflow concurrently, long default output names, out-ports made by SetOut only; round 7: nothing of its own (three round-7 changes caught by existing clauses and by C11)",
     text="Each sampled case places a tape-chosen subset of outputs on disk (or re-runs a completed workflow) and checks: no command of a task with a pre-existing output starts, pre-existing files keep inode/mtime/bytes, downstream results equal the reference computed from the pre-existing bytes.",
     note="Subsets that split a multi-output task are checked for the two safety clauses only (the property promises nothing about consumers of the absent sibling).", ref="9 C02"),
 "C03": dict(level="fault_enumeration", tech=TECH + "every distinct crash state of each sampled schedule is a kill point; history kill / cleanup / re-run executed for each, plus tape-chosen re-run without cleanup and nested crash during recovery; round 5: Go-function tasks, and crashing runs that start from results deleted while their audit files stayed; round 6: a Go-function consumer behind the Concatenator; round 7: tagging components inside the crash histories (known findings F-C03-4 torn audit re-write, F-C03-5 sibling of a tagger)",
     text="For each sampled (workflow, schedule) every distinct crash state is recovered from (cleanup + re-run) and compared with the uninterrupted reference result; inode/mtime of already-final files and the re-run's execution trace are checked. One known finding (F-C03-1) is matched by a structural signature and reported as KNOWN-FINDING; two defects (F-C03-2, F-C03-3) were repaired.",
     note="Crash model as C01. Cleanup = removing entries named _scipipe_tmp* and FIFOs, as the statement says.", ref="9 C03"),
 "C04": dict(level="exploration", tech=TECH + "seeded search over workflows x schedules x map orders x durations; oracle = independent reference evaluation (task multiset, file contents, per-edge delivery); round 5: Go-function nodes whose parameters are read only by the function, the empty string as a parameter value; round 6: numeric parameter values through FromInt/FromFloat, CommandToParams sources, connections through OutPort.To (api stream); round 7: FileToParamsReader sources, parameter values differing in case only, a task-count clause under default names",
     text="Every sampled (workflow, configuration, schedule) is executed completely on the simulator and compared with an independent reference evaluation: multiset of executed tasks, bytes of every output, per-edge delivery counts. One case in eight instead runs the workflow with scipipe's default output names twice, on two fresh directories under two schedules, and compares what was produced (no reference needed). Sampling, not proof. One known finding (F-C04-1: with default names a tagger's tag enters a sibling consumer's file name or not, depending on timing) is matched structurally and reported as KNOWN-FINDING.",
     note="Trusted: the simulator's channel/select/mutex semantics (re-implemented to the Go spec), the in-memory fs, the mini shell, the reference model. Fan-in only into single-port processes; zipped ports have equal lengths; bufsize>=1.", ref="9 C04"),
 "C05": dict(level="exploration", tech=TECH + "deadlock = no runnable goroutine and no timer (exact, no time-outs); early return checked on the snapshot taken by the workflow program right after Run returns; round 5: commands that print 70-300 KB without newline, commands that leave 60/1100 scratch files; round 6: Go-function tasks, nested workflows, an extra file that cannot be moved out; round 7: several processes without out-ports, dotted process names",
     text="Liveness is decided exactly per sampled schedule (the scheduler knows the runnable set), safety on the fs/command state at the return instant. Sampling over graphs, buffer/slot settings and schedules.",
     note="Trusted: simulator and reference as for C04. Workflows with streaming outputs are excluded (C17).", ref="9 C05"),
 "C06": dict(level="exploration", tech=TECH + "step invariant: sum of cores over commands between start and exit <= maxConcurrentTasks, evaluated after every simulator step; round 6: a second, smaller workflow in the same program counted against its own bound; FileSplitter under full slots; round 7: exec.Cmd.WaitDelay in the shim, background helpers that hold the output pipe counted with their task, late outputs, custom log file",
     text="The simulator sees every command start and exit, so slot usage is exact at every step of every sampled schedule (not a lower bound from wall-clock intervals).",
     note="Sampled workflows/schedules; mixed CoresPerTask 1..max; skipped tasks interleaved.", ref="9 C06"),
 "C07": dict(level="exploration", tech=TECH + "barrier commands (complete only if k commands are inside simultaneously) + simulator deadlock detection; token-by-token acquisition interleaved by the scheduler; oversize-cores rejection; round 5: Go-function tasks under contention, a Go-function task that runs a nested workflow while holding outer slots; round 6: rendezvous groups of Go-function tasks; round 7: re-run of a partly finished workflow under multi-core contention; release wave timed on an idle machine (late-admission: 5 simulated s, legitimate code needs 0)",
     text="Work conservation is decided by rendezvous commands under exact deadlock detection (admission into empty slots, a staggered rendezvous, and a release wave after a wide task returns its slots at once), contention by scheduling every individual token deposit / mutex operation, rejection of oversize processes by exit status and trace.",
     note="Sampled configurations and schedules.", ref="9 C07"),
 "C08": dict(level="exploration", tech=TECH + "recorder components on out-port edges; command durations over 6 orders of magnitude so completion order differs from arrival order; round 5: sources listing files in permuted order through FileCombinator (arrival order kept on every out-port); round 6: tagging components with recorders, taggers that leave some files untagged; round 7: a listed file that does not exist between ordered items; round 8: the FileSplitter order shape run a second time with ten and more parts per file",
     text="Recorded per-edge sequences are compared with the reference order (or per-upstream projection for fan-in) under sampled schedules in which later tasks finish first.",
     note="Recorders are ordinary components built with the public API; they add a process per edge. Also recorded: FileSplitter parts, IPSelectorSync out-ports, several sub-stream carriers, a source that lists one file twice.", ref="9 C08"),
 "C09": dict(level="exploration", tech=TECH + "one or two injected failures per run (cmd-exit x3, cmd-signal, cmd-omit, cmd-list: && list whose middle step fails, bad-input x2) on tape-chosen tasks while siblings run; optional history: cleanup and second attempt with the same failure; round 5: failing command of a CommandToParams component, a parameter source nobody consumes, history start-again-in-place, producers killed by SIGPIPE; round 6: an output path that needs a tag the file does not carry, victims among tasks whose inputs differ only in the directory; round 7: victims among several processes without out-ports",
     text="Exit status, absence of the completion marker, absence of the victim's outputs at final paths and absence of start events of transitive dependants are checked for each sampled (workflow, victim, failure kind, schedule).",
     note="Failure kinds are those the statement lists. One genuine defect (F-C09-1: failing CommandToParams command could end in exit 0) was found by the component-command shape and repaired.", ref="9 C09"),
 "C10": dict(level="exploration", tech=TECH + "audit files parsed strictly and compared recursively with the lineage tree of the independent reference evaluation; Command compared with every word the simulated shell actually received (incl. Process.Prepend launchers); round 5: the record ON DISK of every file that passed a tagging component must hold the tag; sibling outputs of one task tagged alike; round 6: stale longer audit files at output paths, the audit file must be ONE JSON document, per-cent signs on command lines, duration = finish - start and the interval contains the execution; round 7: parameters that are not on the command line, sibling of a tagger on an idle machine; round 8: two tagging components attaching different values under one key (a run that reports completion must carry both downstream)",
     text="For every finalized output of every sampled (workflow, schedule) the audit JSON is compared field by field, recursively to the source files, with the reference lineage; timing sanity checked on the simulated clock.",
     note="Ids and absolute times excluded. Tags: inherited tags must be present, extras only from tagging components (a sibling consumer may legally see or not see a tag attached concurrently). Forward-only simulated clock.", ref="9 C10"),
 "C11": dict(level="fault_enumeration", tech=TECH + "histories that split one workflow over several runs: RunTo-then-Run, kill at EVERY crash state of the sampled schedule + cleanup + re-run, delete-outputs + re-run, and up to four further rounds of delete-and-run-again inside ONE simulated process (library globals not re-initialised); nested ancestor records compared byte-for-byte (as JSON values) with the audit files on disk before the resume; round 6: two workflows built up front in one program and run in sequence (Stage), per-cent signs on command lines; round 7: tags embedded in descendants compared with the ancestor file in every crash state of the tagger histories",
     text="Per sampled workflow/schedule every crash state is a split point; after each resumed history all audit files equal the reference lineage and embed the pre-existing ancestor records unchanged, which exercises scipipe's own write/read/embed/write path.",
     note="Crash states whose re-run does not complete are C03's business (F-C03-1) and skipped here. Tagging components only in the crash histories (tags they attach are ignored by the byte-identity clause). One defect (F-C10-1, torn audit file under concurrent taggers) was found here and repaired.", ref="9 C11"),
 "C17": dict(level="exploration", tech=TECH + "simulated FIFOs (blocking open on both ends, bounded pipe buffer with back-pressure, EOF at last close, EPIPE) under the seeded scheduler; payload vs pipe capacity and producer/consumer durations drawn from the tape; history run / run-again; round 5: idle-machine mode (clock advances only when nothing can run) in which the audit link is demanded although F-C17-1 is known; round 6: Go code opening FIFOs on the simulated pipes, a second round of the workflow inside one program; round 7: a joined in-port next to the streamed one; nothing may be left behind by the second run of a completed workflow",
     text="Byte-exact delivery, absence of file and FIFO at the return instant, audit link and the second run are checked per sampled schedule; two known findings (F-C17-1 audit link depends on bookkeeping order, F-C17-2 second run never terminates) are matched structurally and reported as KNOWN-FINDING.",
     note="FIFO semantics are a stub (validated against POSIX behaviour by reading, not by execution). One consumer per streaming port, slots >= 2n, as the statement requires. F-C17-2 masks the second-run clause for producers with only streamed outputs.", ref="9 C17"),
 "C18": dict(level="exploration", tech=TECH + "sub-stream lengths 0..beyond buffer (bufsize 1..3 and, in the thorough tier, 130/140 items against the default 128), separators, upstream timing from the tape; oracle on the argv the simulated shell received, resolved from the task cwd; round 6: two producers into one sub-stream (connections through OutPort.To), outputs named after the joined port, a parameter port next to a joined port; round 7: the carrier of a sub-stream passes a tagging component",
     text="Exactly-one task, member order/completeness/separator and audit Upstream keys are checked for each sampled (length, separator, bufsize, schedule).",
     note="Members relative, in sub-directories and absolute; two joined ports; two members from one upstream task; a second occurrence of the placeholder with a path modifier is checked for one entry per member in order (a modified member need not resolve).", ref="9 C18"),
 "C19": dict(level="exploration", tech=TECH + "each bundled component in a small generated workflow; map-iteration order (the combinators' head port), sender-goroutine interleavings and lock-step reads decided by the tape; oracles = Cartesian product / predicate filter / line conservation / arrival-order concatenation / independent glob; round 5: mixed tagged/untagged Concatenator inputs, FileGlobber emission order with 1-3 patterns, FileCombinator arrival order; round 6: a FileSource path without a file; round 7: large splitter inputs, the globber's second round, a ParamCombinator whose ports share one source",
     text="Schedule- and map-order-sensitive behaviour of the components is explored per sampled schedule; their input-space claims (all file lengths x split sizes, all glob patterns) are only sampled.",
     note="Ports of a combinator that share one upstream are limited to stream length <= bufsize, as the statement says. os/exec pipes are modelled (child goroutine, 64 KiB pipe, Wait closes the read end).", ref="9 C19"),
 "C12": dict(level="exploration", tech=TECH + "race-instrumented build (rewriter -race: map operations, struct fields through pointers, json object graphs) + in-simulator vector-clock happens-before checker with edges only from the simulated go/channel/close/mutex/WaitGroup operations (Go memory model); round 5: the bundled components, a second workflow created and run concurrently, nested workflows; round 6: indexed slice elements tracked, two gathering components side by side; round 7: one file entering through two FileSources, one branch tagging it in place; round 8: sync.Pool is deterministic in the shim (LIFO)",
     text="Each simulated schedule is a legal execution and the edge set equals the memory model's, so every reported pair is a race Go's detector would report on that execution; untracked locations (locals shared through explicit pointers, slice elements touched only by range/append/copy) can only be missed; locals captured by function literals, loop variables and indexed slice elements are tracked. One known finding (F-C12-1, unsynchronised Tags map of shared audit records) is matched by its write site and reported as KNOWN-FINDING; one race (F-C12-2) was repaired.",
     note="Go's own race detector cannot be used under the cooperative scheduler (its hand-offs would order everything). Logging at error level. The behavioural 'half-done' clause is covered through the race reports only.", ref="9 C12"),
 "C20": dict(level="exploration", tech=TECH + "audit trees produced by simulated runs with clock granularity 1ns/1ms/15ms and resumed histories (RunTo+Run with a time-zone change, kill at a crash state + cleanup + re-run); converted by the REAL scipipe CLI built from /repo; generated Bash script executed by the real bash with a native twin of the workload command; round 5: tasks identified by process + exact command in the listings, records without OutFiles (older version) in resumed histories; round 7: per-cent signs on command lines; the history of two programs within one second always runs under a coarse clock (found F-C20-3, fixed a3d1b02; crypto/rand simulated)",
     text="The converter is a pure function and runs natively; simulation supplies the clock- and history-dependent inputs (shared start times, zero-time sources, shared ancestors, records loaded from disk); one case in six converts a directly generated audit tree instead (listings only). Listing completeness/uniqueness/order and byte-identical reproduction are checked per case. Two defects (F-C20-1, F-C20-2) were repaired.",
     note="Native execution of the CLI and bash makes cases ~100x slower than pure simulation. Workflows keep their files in the working directory, as the statement requires.", ref="9 C20"),
 "C16": dict(level="exploration", tech=TECH + "generated graphs with one port left unconnected; RunTo/RunToRegex/RunToProcs with tape-chosen targets; oracle = reference closure vs execution trace; round 5: every script the program starts is recorded (CommandToParams sources in the graphs count as commands), RunTo* with an empty target set; round 6: an unconnected port inside a RunTo closure, a CommandToParams component as RunTo target; round 7: several processes without out-ports as RunTo targets, dotted process names; round 8: inline flags in RunToRegex patterns, a later pattern that selects nothing",
     text="Refusal (exit!=0, empty trace) for unconnected ports and exact closure execution for RunTo are checked on sampled graphs and schedules.",
     note="One genuine defect (F-C16-1, fatal recursion with FromStr feeders) was repaired.", ref="9 C16"),
}

NOT_APPLICABLE = {
 "C13": "quantified over input path strings only - a pure function of the path, with no schedule, clock, fault or interleaving in it; dressing input generation as simulation would test my fs stub, not scipipe (path shapes do occur as a swarm dimension of C01/C03)",
 "C14": "injectivity/stability of a hash-derived directory name over pairs of task identities: a pure function of its inputs, no schedule/clock/fault dimension; (the step invariant 'no two in-flight tasks share a temp dir' is monitored in other checks but does not decide C14)",
 "C15": "string-to-string placeholder expansion rules over a pattern grammar: no concurrency, time or I/O for a simulator to control",
}

NOT_YET = {}  # id -> reason (checks not built yet)

def main():
    props = [json.loads(l) for l in open(os.path.join(V, "properties.jsonl"))]
    fixes = subprocess.run(["git", "-C", "/repo", "log", "--format=%H %s"], capture_output=True, text=True).stdout.splitlines()
    fix_commits = [l.split()[0] for l in fixes if l.split(" ", 1)[1].startswith("fix:")]
    checks = []
    na = []
    for p in props:
        i = p["id"]
        if i in CLAIMED:
            c = CLAIMED[i]
            checks.append({
                "property_id": i,
                "quick_cmd": "./check %s quick" % i,
                "thorough_cmd": "./check %s thorough" % i,
                "evidence_file": "/verif/evidence/%s.json" % i,
                "replay_cmd_template": "./check replay {path}",
                "engine": "scipipe-dst",
                "level_claimed": {"category": c["level"], "text": c["text"], "design_ref": "DESIGN.md section " + c["ref"]},
                "level_note": c["note"],
                "technique": c["tech"],
            })
        elif i in NOT_APPLICABLE:
            na.append({"property_id": i, "reason": NOT_APPLICABLE[i]})
        else:
            na.append({"property_id": i, "reason": NOT_YET.get(i, "not claimed yet: the simulated check for this property has not been built/validated at this commit")})
    m = {
        "version": 1,
        "setup_cmd": "./check build",
        "hooks": {
            "guard": "none in /repo: instrumentation (import swap to simulated os/exec/time/sync/..., channel/select/go/map-range rewriting) is applied mechanically by /verif/rewriter to a scratch copy of the current /repo tree at check time; the shipped code carries no hook",
            "enable": "./check build  (rewriter -> scratch copy -> go build of harness/worker against it; cached by content hash of /repo and /verif sources)",
            "baseline_off_cmd": "cd /repo && go test -vet=off -count=1 -timeout 25m ./...",
            "source_commits": fix_commits,
            "add_only": True,
        },
        "engines": [{"name": "scipipe-dst", "path": "/verif/check", "serves_properties": sorted(CLAIMED), "kind_free_text": "deterministic whole-program simulator for scipipe (seeded scheduler, simulated channels/select/sync, fs, shell, clock; fault injection; tape shrinking; exact replay)"}],
        "checks": checks,
        "not_applicable": na,
        "notes": "source_commits lists only 'fix:' repairs of genuine defects (see known_findings.json); there are no hook commits. Exit status 2 of a check means harness trouble (build failure of an edited tree under instrumentation, non-replayable failure, watchdog), never a violation.",
    }
    json.dump(m, open(os.path.join(V, "MANIFEST.json"), "w"), indent=1)
    print("claimed:", sorted(CLAIMED), "n/a:", [x["property_id"] for x in na])

if __name__ == "__main__":
    main()
