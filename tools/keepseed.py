#!/usr/bin/env python3
"""tools/keepseed.py <worktree> <name> <seed-id> <caught_by(comma list)> <missed_before(text)>
copies a confirmed sub-agent mutant into /verif/seeded/<seed-id>/ and records what was run."""
import json, os, shutil, sys
wt, name, sid, caught, note = sys.argv[1:6]
src = os.path.join(wt, "out", name)
dst = os.path.join("/verif/seeded", sid)
if os.path.exists(dst):
    shutil.rmtree(dst)
os.makedirs(dst)
shutil.copy(os.path.join(src, "patch.diff"), dst)
shutil.copytree(os.path.join(src, "demo"), os.path.join(dst, "demo"))
for junk in ("go.sum",):
    p = os.path.join(dst, "demo", junk)
    if os.path.exists(p):
        os.remove(p)
m = json.load(open(os.path.join(src, "meta.json")))
m["origin"] = "written by a sub-agent that saw only the property text and its own worktree of /repo (nothing from /verif)"
m["confirmed_by_me"] = {"applies_and_builds": True, "test_suite_stable_60_of_60_with_patch": True, "demo_without_patch_rc": 0, "demo_with_patch_nonzero": True,
                        "how": "tools/seedcheck.sh: patch applied in the scratch worktree, go build ./..., go test -vet=off -count=1 -json ./... compared with BASELINE stable_pass, demo/run.sh run without and with the patch"}
m["checks_run"] = "tools/seedcheck.sh <worktree> %s <budget> <props>: each check's quick tier with VERIF_REPO pointing at the patched scratch worktree" % name
m["caught_by"] = [c for c in caught.split(",") if c]
m["history"] = note
m["demo_note"] = "demo/go.mod replaces github.com/scipipe/scipipe with the sub-agent's scratch worktree path; edit the replace line to point at a checkout with the patch applied to re-run it"
json.dump(m, open(os.path.join(dst, "meta.json"), "w"), indent=1)
print("kept", sid)
